(* Model of src/dippy/core/analyzer.py: the recursive walk over the bash AST
   (_analyze_node, _analyze_sequence, _analyze_command, _analyze_redirects,
   _analyze_word_parts, _analyze_expansion, _analyze_cond_node, _extract_cd_target)
   with the decision ladder, the redirect-rule lookup, the recursive analysis of
   raw substitution strings and path resolution as oracles.  Verdicts only: reasons
   are not modelled.

   Every function of the Python walker that recurses over the AST is one field of
   the result record computed bottom-up by [ev]; a field is a function of the
   (cwd, remote) context it is called in, exactly like the Python functions. *)
From DippyV Require Import Base.Str Base.Verdict Base.Sx Base.Tree Gen.Tables Model.RawScan.

Definition ctx := (str * bool)%type.           (* cwd, remote *)

Record res := {
  r_node  : ctx -> verdict;                  (* _analyze_node(node) *)
  r_exp   : ctx -> list verdict;             (* _analyze_expansion(node) *)
  r_wp    : bool -> ctx -> list verdict;     (* _analyze_word_parts(node, scan_raw=b); also the
                                                per-word substitution step of _analyze_command *)
  r_cond  : ctx -> list verdict;             (* _analyze_cond_node(node) *)
  r_redir : ctx -> list verdict;             (* contribution of node as an element of .redirects *)
  r_pat   : ctx -> list verdict              (* contribution of node as an element of case.patterns *)
}.

(* _strip_quotes: bash quote removal on a word's text.  None = the word is returned unchanged
   (an unterminated quote). *)
Inductive qmode := QUn | QSingle | QDouble.
Definition dq_escapable : list N := [36; 96; 34; 92].       (* dollar, backtick, double quote, backslash *)

Fixpoint quote_removal (m : qmode) (s : str) (acc : str) {struct s} : option str :=
  match s with
  | [] => match m with QUn => Some (rev acc) | _ => None end
  | c :: r =>
      match m with
      | QUn =>
          if N.eqb c 39 then quote_removal QSingle r acc
          else if N.eqb c 34 then quote_removal QDouble r acc
          else if N.eqb c 92 then
            match r with
            | [] => Some (rev (c :: acc))
            | c2 :: r2 => if N.eqb c2 10 then quote_removal QUn r2 acc else quote_removal QUn r2 (c2 :: acc)
            end
          else quote_removal QUn r (c :: acc)
      | QSingle => if N.eqb c 39 then quote_removal QUn r acc else quote_removal QSingle r (c :: acc)
      | QDouble =>
          if N.eqb c 34 then quote_removal QUn r acc
          else if N.eqb c 92 then
            match r with
            | c2 :: r2 =>
                if mem_ch c2 dq_escapable then quote_removal QDouble r2 (c2 :: acc)
                else if N.eqb c2 10 then quote_removal QDouble r2 acc
                else quote_removal QDouble r (c :: acc)
            | [] => quote_removal QDouble r (c :: acc)
            end
          else quote_removal QDouble r (c :: acc)
      end
  end.

Definition strip_quotes (v : str) : str :=
  if negb (mem_ch 39 v || mem_ch 34 v || mem_ch 92 v) then v
  else if infixb [36; 39] v || infixb [36; 34] v then v       (* ANSI-C and locale quoting: left as is *)
  else match quote_removal QUn v [] with Some out => out | None => v end.

(* _get_word_value(word) for a word node *)
Definition word_value (w : tree) : str := strip_quotes (attr_d "value" w).

(* _is_assignment_word: the regular expression [A-Za-z_][A-Za-z0-9_]*(\[[^][]*\])?\+?= matched at the start
   of the word - NAME=, NAME+=, NAME[sub]=, NAME[sub]+= with NAME an ASCII identifier *)
Definition ident_start (c : N) : bool := in_ranges c [(65, 90); (97, 122); (95, 95)].
Definition ident_char (c : N) : bool := ident_start c || in_ranges c [(48, 57)].
Fixpoint skip_ident (s : str) : str := match s with c :: r => if ident_char c then skip_ident r else s | [] => [] end.
Fixpoint after_bracket (s : str) : option str :=      (* the text after the first "]", with no "[" before it *)
  match s with c :: r => if N.eqb c 93 then Some r else if N.eqb c 91 then None else after_bracket r | [] => None end.
Definition assign_tail (s : str) : bool :=             (* \+?= *)
  match s with
  | c :: r => if N.eqb c 61 then true else if N.eqb c 43 then match r with d :: _ => N.eqb d 61 | [] => false end else false
  | [] => false
  end.
Definition is_assignment (w : str) : bool :=
  match w with
  | c :: r =>
      ident_start c &&
      (let t := skip_ident r in
       match t with
       | d :: u => if N.eqb d 91
                   then (match after_bracket u with Some v => assign_tail v | None => false end) || assign_tail t
                   else assign_tail t
       | [] => false
       end)
  | [] => false
  end.

Fixpoint skip_assignments (ws : list str) : list str :=
  match ws with
  | w :: r => if is_assignment w then skip_assignments r else ws
  | [] => []
  end.

(* len(parts)==1 and parts[0].kind=="cmdsub" and value.startswith("$(") and value.endswith(")") *)
Definition is_pure_cmdsub (w : tree) : bool :=
  match children "parts" w with
  | [p] => is_kind "cmdsub" p && prefixb $"$(" (attr_d "value" w) && suffixb $")" (attr_d "value" w)
  | _ => false
  end.

(* allowlists.sets_execution_var(word): the word is NAME=value or NAME+=value, NAME decides what runs - except a PATH
   assigned (not appended) a list of system directories only *)
Fixpoint take_ident (s : str) : str := match s with c :: r => if ident_char c then c :: take_ident r else [] | [] => [] end.
Definition sets_execution_var (w : str) : bool :=
  match w with
  | c :: r =>
      if negb (ident_start c) then false else
      let name := c :: take_ident r in
      let rest := skipn (length name) w in
      match rest with
      | 61 :: v => mem_str name EXECUTION_ENV_VARS &&
                   negb (str_eqb name $"PATH" && forallb (fun d => mem_str d SYSTEM_PATH_DIRS) (split_ch 58 v))
      | 43 :: 61 :: _ => mem_str name EXECUTION_ENV_VARS
      | _ => false
      end
  | [] => false
  end.
(* the assignment prefix of a command: an "ask" for every word that sets a variable deciding what runs *)
Fixpoint env_asks (nassign pos : nat) (words : list str) : list verdict :=
  match words with
  | [] => []
  | w :: rest => (if Nat.ltb pos nassign && sets_execution_var w then [Ask] else []) ++ env_asks nassign (S pos) rest
  end.

(* _names_variable(base, words, position, base_idx): bash evaluates this argument of a builtin as a variable name *)
Definition names_variable (base : str) (words : list str) (position nassign : nat) : bool :=
  Nat.ltb nassign position &&
  (mem_str base NAME_EVAL_ALL || (str_eqb base NAME_EVAL_CMD && str_eqb (nth (position - 1) words []) NAME_EVAL_FLAG)).

(* _REWRITTEN_CHARS.intersection(word): the word holds a character bash (or the tool) still acts on -
   an expansion, a glob, a brace: it is not the name of the file as written *)
Definition has_rewritten (t : str) : bool := existsb (fun c => existsb (N.eqb c) REWRITTEN_CHARS) t.

(* _match_written_file(target, config, cwd) given match_redirect's answer: an allow rule grants only a literal name *)
Definition written_rule (m : option verdict) (t : str) : option verdict :=
  match m with
  | Some Allow => if has_rewritten t then None else Some Allow
  | _ => m
  end.

(* _extract_cd_target(node) *)
Definition extract_cd_target (t : tree) : option str :=
  if negb (is_kind "command" t) then None else
  match children "words" t with
  | [w0; w1] =>
      if negb (str_eqb (word_value w0) $"cd") then None
      else if nonempty (children "parts" w1) then None       (* an expansion of any kind *)
      else let tgt := word_value w1 in
           if has_rewritten tgt then None else
           (* cd -, cd ~-, cd ~user, cd -P: not the name of a directory *)
           if prefixb [45] tgt || (prefixb [126] tgt && negb (match tl tgt with [] => true | c :: _ => N.eqb c 47 end)) then None
           else Some tgt
  | _ => None
  end.

(* `command` / `builtin` prefixes, each with its options (words starting with "-"), are looked through *)
Fixpoint skip_dashes (ws : list str) : list str :=
  match ws with w :: r => if prefixb [45] w then skip_dashes r else ws | [] => [] end.
Fixpoint skip_chdir_wrappers (fuel : nat) (ws : list str) : list str :=
  match fuel with
  | O => ws
  | S f => match ws with
           | w :: r => if mem_str w CHDIR_WRAPPERS then skip_chdir_wrappers f (skip_dashes r) else ws
           | [] => []
           end
  end.

(* _changes_directory(node): a cd/pushd/popd that runs in the current shell, anywhere inside *)
Fixpoint changes_directory (t : tree) : bool :=
  match t with
  | T k _ _ ks =>
      if str_eqb k $"command" then
        match skip_chdir_wrappers (length ks) (skip_assignments (map word_value (map snd (filter (fun p => str_eqb (fst p) $"words") ks)))) with
        | b :: _ => mem_str b CHDIR_COMMANDS
        | [] => false
        end
      else if mem_str k CHDIR_OPAQUE_KINDS then false
      else if str_eqb k $"pipeline" && Nat.ltb 1 (length (filter (fun p => str_eqb (fst p) $"commands") ks)) then false
      else existsb (fun p => changes_directory (snd p)) ks
  end.

(* _count_substitution_nodes(node): cmdsub/procsub nodes below node, plus the openers in the raw string
   attributes of every node that is not a word (those strings are scanned as text) *)
Fixpoint count_subst_nodes (t : tree) : nat :=
  match t with
  | T k ss _ ks =>
      ((if mem_str k SUBST_KINDS then 1 else 0) +
       (if str_eqb k $"word" then 0 else fold_right Nat.add 0 (map (fun p => count_openers (snd p)) ss)) +
       fold_right Nat.add 0 (map (fun p => count_subst_nodes (snd p)) ks))%nat
  end.

(* _substitutions_lost(text, node) *)
Definition substitutions_lost (text : str) (t : tree) : bool :=
  has_opener text && Nat.ltb (count_subst_nodes t) (count_openers text).

(* the two guards on a word's text (or on the raw text of (( ))) against parser blind spots *)
Definition text_guards (with_parts scan : bool) (text : str) (node : tree) : list verdict :=
  (if with_parts && unclosed_arith text then [Ask] else []) ++
  (if (with_parts || negb scan) && substitutions_lost text node then [Ask] else []).

(* _strip_fd_prefix(op) *)
Definition strip_fd_prefix (op : str) : str :=
  match op with
  | c :: _ =>
      if N.eqb c 123 then
        match find_ch 125 op with
        | Some i => skipn (S i) op
        | None => lstrip ascii_digits op
        end
      else lstrip ascii_digits op
  | [] => []
  end.

(* "N>&word" is reported as operator "N>" with the target word "&word": [dup_word] says whether
   word makes it a duplication / closing / move ("3", "-", "3-") rather than a file *)
Definition dup_word (w : str) : bool :=
  str_eqb w [45] || is_ascii_digits (if suffixb [45] w then removelast w else w).

(* (is this an fd duplication by its "&word" target?, the file the redirection would name) *)
Definition redirect_file (raw tgt : str) : bool * str :=
  if prefixb [38] raw then (dup_word (tl raw), strip_quotes (tl raw)) else (false, tgt).

(* the part of _analyze_redirects after the target's substitutions, for remote = false:
   Some t = this redirect needs a redirect rule for the file t.
   raw = target.value, tgt = _get_word_value(target) *)
(* bash expands a leading ~ only when it is not quoted: the file "~/x" names is ./~/x *)
Definition lookup_name (raw t : str) : str := if prefixb [126] t && negb (prefixb [126] raw) then [46; 47] ++ t else t.
Definition redirect_check (op raw tgt : str) : option str :=
  let bare := strip_fd_prefix op in
  let '(dup, t) := redirect_file raw tgt in
  if dup then None
  else if mem_str bare REDIRECT_DUP_OPS && (is_ascii_digits t || str_eqb t [45]) then None
  else if mem_str t SAFE_REDIRECT_TARGETS then None
  else
    if mem_str bare REDIRECT_WRITE_OPS then Some (lookup_name raw t) else None.

Section Walker.
  (* _analyze_simple_command(words, config, cwd, remote).action *)
  Variable simple : ctx -> list str -> verdict.
  (* analyze(inner, config, cwd, remote).action for a substitution found in a raw string *)
  Variable astr : ctx -> str -> verdict.
  (* match_redirect(target, config, cwd): decision of the matching rule, if any *)
  Variable mredir : str -> str -> option verdict.
  (* _resolve_cd_target(target, cwd) *)
  Variable cdres : str -> str -> str.
  (* has_handler(base) and base not in SIMPLE_SAFE and handler.classify(words).action != "allow" *)
  Variable injrisk : ctx -> list str -> bool.
  (* match_command(SimpleCommand(tokens), config, cwd, remote) is not None *)
  Variable rulematch : ctx -> list str -> bool.

  (* _analyze_string_cmdsubs(s) *)
  Definition rawscan (c : ctx) (s : str) : list verdict :=
    match scan_raw s with
    | RNone => []
    | RComplex => [Ask]
    | RSubs l => map (astr c) l
    end.

  Definition redirect_rule (cwd tgt : str) : verdict :=
    match written_rule (mredir cwd tgt) tgt with
    | Some v => v
    | None => Ask
    end.

  Definition unknown_ctx (c : ctx) : ctx := (UNKNOWN_CWD, snd c).

  (* _analyze_sequence: the state carried from one element to the next is the directory and whether that
     directory rests on the assumption that an earlier `cd` succeeded.  [op] is the list operator written
     after the element (";" for a newline or the end).  A `cd <literal>` is followed only through "&&"; an
     element followed by "&" runs in a subshell and moves nothing; leaving an "&&" chain that started with
     a followed cd makes the directory unknown (the cd may have failed). *)
  Definition seq_state := (ctx * (bool * str))%type.        (* directory, assumed, operator before this element *)
  Definition op_and : str := [38; 38].
  Definition op_or : str := [124; 124].
  Definition op_bg : str := [38].
  Definition op_semi : str := [59].
  Definition init_state (c : ctx) : seq_state := (c, (false, op_semi)).
  Definition st_assumed (st : seq_state) : bool := fst (snd st).
  Definition st_prev (st : seq_state) : str := snd (snd st).

  Definition next_state (st : seq_state) (t : tree) (op : str) : seq_state :=
    let c := fst st in
    if snd c then st else
    (* what the move decides: directory and assumption *)
    let moved : ctx * bool :=
      if str_eqb op op_bg then (c, st_assumed st) else
      match extract_cd_target t with
      | Some tgt =>
          if nonempty tgt && str_eqb op op_and && negb (str_eqb (st_prev st) op_or) then ((cdres (fst c) tgt, snd c), true)
          else if nonempty tgt || changes_directory t then (unknown_ctx c, st_assumed st) else (c, st_assumed st)
      | None => if changes_directory t then (unknown_ctx c, st_assumed st) else (c, st_assumed st)
      end in
    (* leaving an "&&" chain that rests on a followed cd *)
    if snd moved && negb (str_eqb op op_and) then (unknown_ctx (fst moved), (false, op)) else (fst moved, (snd moved, op)).

  (* the context of the next element when the operator is ";" (top-level nodes on separate lines) *)
  Definition next_ctx (c : ctx) (t : tree) : ctx := fst (next_state (init_state c) t op_semi).

  (* the directory a loop body / the branches of an if run in *)
  Definition body_ctx (c : ctx) (moves : bool) : ctx := if negb (snd c) && moves then unknown_ctx c else c.

  (* _analyze_sequence over already evaluated nodes, each with the operator after it *)
  Fixpoint sequence (st : seq_state) (l : list (tree * res * str)) : list verdict :=
    match l with
    | [] => []
    | (t, r, op) :: rest =>
        r_node r (fst st) ::
        sequence (next_state st t op) rest
    end.

  (* the parts of a list node paired with the operator written after each (operator kids carry attribute "op") *)
  Fixpoint ops_after (l : list (tree * res)) (cur : str) : str :=      (* the last of the operators that follow *)
    match l with
    | (o, _) :: rest => if is_kind "operator" o then ops_after rest (attr_d "op" o) else cur
    | [] => cur
    end.
  Fixpoint with_ops (l : list (tree * res)) : list (tree * res * str) :=
    match l with
    | [] => []
    | (t, r) :: rest =>
        if is_kind "operator" t then with_ops rest
        else (t, r, ops_after rest op_semi) :: with_ops rest
    end.
  Definition semis (l : list (tree * res)) : list (tree * res * str) := map (fun p => (fst p, snd p, op_semi)) l.

  (* words without expansions whose text bash may evaluate later: the values of the assignment prefix (arithmetic reads
     a variable's value recursively) and the variable-name arguments of builtins *)
  Fixpoint name_scans (c : ctx) (base : str) (words : list str) (nassign pos : nat) (l : list tree) : list verdict :=
    match l with
    | [] => []
    | t :: rest =>
        (if Nat.ltb pos nassign || names_variable base words pos nassign
         then (if negb (nonempty (children "parts" t)) then rawscan c (attr_d "value" t)
               else if has_inert_opener (attr_d "value" t) then [Ask] else [])
         else []) ++
        name_scans c base words nassign (S pos) rest
    end.

  Definition lbl (k : string) (kr : list (str * tree * res)) : list (tree * res) :=
    map (fun p => (snd (fst p), snd p)) (filter (fun p => str_eqb (fst (fst p)) (s2l k)) kr).
  Definition one (k : string) (kr : list (str * tree * res)) : option (tree * res) :=
    match lbl k kr with x :: _ => Some x | [] => None end.

  (* a mandatory child: absent means the Python code raises (AttributeError) - not an allow *)
  Definition need_node (o : option (tree * res)) (c : ctx) : verdict :=
    match o with Some (_, r) => r_node r c | None => Ask end.
  Definition opt_node (o : option (tree * res)) (c : ctx) : list verdict :=
    match o with Some (_, r) => [r_node r c] | None => [] end.

  Definition moves_of (o : option (tree * res)) : bool :=
    match o with Some (t, _) => changes_directory t | None => false end.

  Definition redirs (kr : list (str * tree * res)) (c : ctx) : list verdict :=
    flat_map (fun p => r_redir (snd p) c) (lbl "redirects" kr).
  Definition wparts_of (k : string) (kr : list (str * tree * res)) (c : ctx) : list verdict :=
    flat_map (fun p => r_wp (snd p) false c) (lbl k kr).

  (* case items run in order; after an item that falls through (terminator ";&" or ";;&") and whose body changes
     directory, the later items are judged in the unknown directory *)
  Definition item_moves (t : tree) : bool :=
    match assoc_str $"terminator" (match t with T _ ss _ _ => ss end) with
    | Some term => negb (str_eqb term $";;")
    | None => false
    end &&
    match child "body" t with Some b => changes_directory b | None => false end.
  Definition item_ctx (c : ctx) (t : tree) : ctx := if negb (snd c) && item_moves t then unknown_ctx c else c.
  Fixpoint case_items (c : ctx) (l : list (tree * res)) : list verdict :=
    match l with
    | [] => []
    | (t, r) :: rest => r_pat r c ++ case_items (item_ctx c t) rest
    end.

  Definition known_kinds : list str :=
    [$"command"; $"pipeline"; $"list"; $"if"; $"while"; $"until"; $"for"; $"for-arith"; $"select";
     $"case"; $"function"; $"subshell"; $"brace-group"; $"time"; $"negation"; $"coproc";
     $"cond-expr"; $"arith-cmd"; $"comment"; $"empty"].

  Definition build (k : str) (ss : list (str * str)) (fs : list (str * bool))
             (kr : list (str * tree * res)) : res :=
    let K (n : string) := str_eqb k (s2l n) in
    let self := T k ss fs (map (fun p => (fst (fst p), snd (fst p))) kr) in
    let sattr (n : string) := match assoc_str (s2l n) ss with Some s => s | None => [] end in
    (* --- _analyze_word_parts --- *)
    let wp : bool -> ctx -> list verdict := fun scan c =>
      let parts := lbl "parts" kr in
      text_guards (nonempty parts) scan (sattr "value") self ++
      flat_map (fun p => r_exp (snd p) c) parts ++
      (if scan then (if negb (nonempty parts) then rawscan c (sattr "value")
                     else if has_inert_opener (sattr "value") then [Ask] else []) else []) in
    (* --- _analyze_expansion --- *)
    let exp : ctx -> list verdict := fun c =>
      if mem_str k SUBST_KINDS then [need_node (one "command" kr) c]
      else if K "word" then wp false c
      else flat_map (fun p => rawscan c (snd p)) ss ++ flat_map (fun p => r_exp (snd p) c) kr in
    (* --- _analyze_cond_node --- *)
    let cond : ctx -> list verdict := fun c =>
      if K "unary-test" then flat_map (fun p => r_wp (snd p) true c) (lbl "operand" kr)
      else if K "binary-test" then
        flat_map (fun p => r_wp (snd p) true c) (lbl "left" kr) ++
        flat_map (fun p => r_wp (snd p) true c) (lbl "right" kr)
      else if K "cond-and" || K "cond-or" then
        flat_map (fun p => r_cond (snd p) c) (lbl "left" kr) ++
        flat_map (fun p => r_cond (snd p) c) (lbl "right" kr)
      else if K "cond-not" then flat_map (fun p => r_cond (snd p) c) (lbl "operand" kr)
      else if K "cond-paren" then flat_map (fun p => r_cond (snd p) c) (lbl "inner" kr)
      else [] in
    (* --- one element of node.redirects in _analyze_redirects --- *)
    let redir : ctx -> list verdict := fun c =>
      if K "heredoc" then
        match assoc_flag $"quoted" fs with
        | Some false => rawscan c (sattr "content")
        | _ => []
        end
      else
        let tgt := one "target" kr in
        let subs := match tgt with Some (_, r) => r_wp r (str_eqb (sattr "op") HERESTRING_OP) c | None => [] end in
        let raw := match tgt with Some (t, _) => attr_d "value" t | None => [] end in
        let val := match tgt with Some (t, _) => word_value t | None => [] end in
        subs ++
        (if snd c then []
         else match redirect_check (sattr "op") raw val with
              | None => []
              | Some file => [redirect_rule (fst c) file]
              end) in
    (* --- one element of case.patterns --- *)
    let pat : ctx -> list verdict := fun c =>
      rawscan c (sattr "pattern") ++ opt_node (one "body" kr) c in
    (* --- _analyze_command --- *)
    let command : ctx -> verdict := fun c =>
      let ws := lbl "words" kr in
      let words := map (fun p => word_value (fst p)) ws in
      let tokens := skip_assignments words in
      let nassign := (length words - length tokens)%nat in
      let base := match tokens with b :: _ => b | [] => [] end in
      let subst := flat_map (fun p => r_wp (snd p) false c) ws in
      let inj :=
        if existsb (fun p => is_pure_cmdsub (fst p)) (skipn (S nassign) ws)
        then (if injrisk c tokens then [Ask] else []) else [] in
      combine (subst ++ env_asks nassign 0 words ++ name_scans c base words nassign 0 (map fst ws) ++ inj ++ redirs kr c ++
               match words with
               | [] => [Allow]
               | _ => if mem_str base TEST_COMMANDS && negb (rulematch c tokens) then [Allow] else [simple c words]
               end) in
    (* --- _analyze_node --- *)
    let node : ctx -> verdict := fun c =>
      if K "command" then command c
      else if K "pipeline" then combine (map (fun p => r_node (snd p) c) (lbl "commands" kr))
      else if K "list" then
        combine (sequence (init_state c) (with_ops (lbl "parts" kr)))
      else if K "if" then
        let cb := body_ctx c (moves_of (one "condition" kr)) in
        combine (need_node (one "condition" kr) c :: need_node (one "then_body" kr) cb ::
                 opt_node (one "else_body" kr) cb ++ redirs kr c)
      else if K "while" || K "until" then
        let cb := body_ctx c (changes_directory self) in
        combine (need_node (one "condition" kr) cb :: need_node (one "body" kr) cb :: redirs kr c)
      else if K "for" || K "select" then
        combine (need_node (one "body" kr) (body_ctx c (moves_of (one "body" kr))) ::
                 flat_map (fun p => r_wp (snd p) true c) (lbl "words" kr) ++ redirs kr c)
      else if K "for-arith" then
        combine (need_node (one "body" kr) (body_ctx c (moves_of (one "body" kr))) ::
                 rawscan c (sattr "init") ++ rawscan c (sattr "cond") ++ rawscan c (sattr "incr") ++ redirs kr c)
      else if K "case" then
        combine (wparts_of "word" kr c ++ case_items c (lbl "patterns" kr) ++ redirs kr c)
      else if K "function" then need_node (one "body" kr) c
      else if K "subshell" || K "brace-group" then combine (need_node (one "body" kr) c :: redirs kr c)
      else if K "time" || K "negation" then need_node (one "pipeline" kr) c
      else if K "coproc" then need_node (one "command" kr) c
      else if K "cond-expr" then
        combine (flat_map (fun p => r_cond (snd p) c) (lbl "body" kr) ++ redirs kr c)
      else if K "arith-cmd" then
        combine (flat_map (fun p => r_exp (snd p) c) (lbl "expression" kr) ++
                 text_guards true true (sattr "raw_content")
                   (match one "expression" kr with Some (e, _) => e | None => T [] [] [] [] end) ++ redirs kr c)
      else if K "comment" || K "empty" then Allow
      else Ask in
    {| r_node := node; r_exp := exp; r_wp := wp; r_cond := cond; r_redir := redir; r_pat := pat |}.

  Fixpoint ev (t : tree) : res :=
    match t with
    | T k ss fs ks => build k ss fs (map (fun p => (fst p, snd p, ev (snd p))) ks)
    end.

  (* _analyze_node *)
  Definition walk (c : ctx) (t : tree) : verdict := r_node (ev t) c.

  (* analyze() after parsing: None = ParseError; the caller has stripped the command *)
  Definition analyze_nodes (c : ctx) (nodes : option (list tree)) : verdict :=
    match nodes with
    | None => Ask
    | Some [] => Ask
    | Some ns => combine (sequence (init_state c) (semis (map (fun t => (t, ev t)) ns)))
    end.
End Walker.

(* ---- analyze(): what happens to the text before it is parsed ----
   bash separates words at blanks and newlines only; the text is stripped of those (ANALYZE_STRIP), a text that is white
   space in Python's sense only (str.isspace: form feed, no-break space, ...) is an empty command, and a text that
   contains any other white space is not analysed at all. *)
Definition bash_blank (c : N) : bool := mem_ch c ANALYZE_STRIP.
Definition py_space (c : N) : bool := in_ranges c PY_SPACE.
Fixpoint lstrip_blanks (s : str) : str := match s with c :: r => if bash_blank c then lstrip_blanks r else s | [] => [] end.
Definition strip_blanks (s : str) : str := rev (lstrip_blanks (rev (lstrip_blanks s))).
Definition analyze_prelude (s : str) : option str :=       (* None = ask without parsing; Some text = parse this *)
  let c := strip_blanks s in
  if forallb py_space c then None
  else if existsb (fun ch => py_space ch && negb (bash_blank ch)) c then None
  else Some c.

Section AnalyzeText.
  Variable simple : ctx -> list str -> verdict.
  Variable astr : ctx -> str -> verdict.
  Variable mredir : str -> str -> option verdict.
  Variable cdres : str -> str -> str.
  Variable injrisk : ctx -> list str -> bool.
  Variable rulematch : ctx -> list str -> bool.
  Variable parse : str -> option (list tree).      (* the vendored parser: None = it rejected the text (or failed) *)
  Definition analyze_text (c : ctx) (s : str) : verdict :=
    match analyze_prelude s with
    | None => Ask
    | Some text => analyze_nodes simple astr mredir cdres injrisk rulematch c (parse text)
    end.
End AnalyzeText.
