(* SPEC: GNU getopt_long as the coreutils/findutils wrappers call it, i.e. with an option string
   that starts with + : scanning stops at the first operand (no permutation).

   - a lone --            ends the options; everything after it is an operand
   - --name, --name=value long options; a unique prefix of a long name abbreviates it
                          (an exact name wins over longer names it is a prefix of);
                          a required argument that is not =-joined is the NEXT word, whatever it is
                          (also -- or a word starting with -); an optional argument is only ever =-joined;
                          =value given to an option without argument is an error
   - -abc                 short cluster: options without argument may be followed by more options
                          in the same word; an option with a required argument takes the rest of
                          the word, or, when nothing is left, the NEXT word; an optional argument is
                          only ever the rest of the word
   - a word that does not start with - , and the word - itself, is the first operand.

   This is a specification (trusted, validated against the real tools by harness/c04.py); the
   handlers of /repo are NOT written like this - the point of C04 is to compare them with it. *)
From DippyV Require Import Base.Str.

Inductive akind := ANo | AReq | AOpt.

Record optspec := { shorts : list (N * akind); longs : list (str * akind) }.

(* an option occurrence: its name (one character for a short option, the full long name without
   dashes for a long one) and its argument *)
Inductive gopt := GS (c : N) (a : option str) | GL (name : str) (a : option str).

Inductive gres :=
| GErr
| GOk (opts : list gopt) (operands : list str)
| GStop (opts : list gopt) (o : gopt) (rest : list str).   (* scanning was stopped at option o (see getopt_x) *)

Definition DASH : N := 45.
Definition EQ : N := 61.

Fixpoint lookup_short (c : N) (l : list (N * akind)) : option akind :=
  match l with
  | [] => None
  | (d, k) :: r => if N.eqb c d then Some k else lookup_short c r
  end.

(* exact match first, else the unique long name that the given text is a prefix of *)
Fixpoint exact_long (n : str) (l : list (str * akind)) : option (str * akind) :=
  match l with
  | [] => None
  | (m, k) :: r => if str_eqb n m then Some (m, k) else exact_long n r
  end.
Definition prefix_longs (n : str) (l : list (str * akind)) : list (str * akind) :=
  filter (fun e => prefixb n (fst e)) l.
Definition resolve_long (n : str) (l : list (str * akind)) : option (str * akind) :=
  match exact_long n l with
  | Some e => Some e
  | None => match prefix_longs n l with [e] => Some e | _ => None end
  end.

(* split --name=value at the first = *)
Fixpoint split_eq (s : str) : str * option str :=
  match s with
  | [] => ([], None)
  | c :: r => if N.eqb c EQ then ([], Some r)
              else let '(n, v) := split_eq r in (c :: n, v)
  end.

(* the scan of one short cluster (without its leading dash) *)
Inductive cres := CErr | CDone (o : list gopt) | CNeed (o : list gopt) (c : N).
Fixpoint cluster (sp : optspec) (cs : str) : cres :=
  match cs with
  | [] => CDone []
  | c :: r =>
      match lookup_short c (shorts sp) with
      | None => CErr
      | Some ANo =>
          match cluster sp r with
          | CErr => CErr
          | CDone o => CDone (GS c None :: o)
          | CNeed o d => CNeed (GS c None :: o) d
          end
      | Some AReq => match r with [] => CNeed [] c | _ => CDone [GS c (Some r)] end
      | Some AOpt => CDone [GS c (match r with [] => None | _ => Some r end)]
      end
  end.

Definition gcons (o : list gopt) (r : gres) : gres :=
  match r with
  | GErr => GErr
  | GOk os ops => GOk (o ++ os) ops
  | GStop os g rest => GStop (o ++ os) g rest
  end.

(* the shape of one command-line word *)
Inductive wkind := WDDash | WLong (body : str) | WShort (cs : str) | WOperand.
Definition word_kind (a : str) : wkind :=
  match a with
  | 45 :: 45 :: [] => WDDash                     (* -- *)
  | 45 :: 45 :: body => WLong body               (* --name[=value] *)
  | 45 :: c :: cs => WShort (c :: cs)            (* -abc *)
  | _ => WOperand                                (* anything else, also - and the empty word *)
  end.

(* the options of one word: continue, unless one of them is a stop option *)
Fixpoint split_stop (stop : gopt -> bool) (o : list gopt) : list gopt * option gopt :=
  match o with
  | [] => ([], None)
  | g :: r => if stop g then ([], Some g) else let '(a, b) := split_stop stop r in (g :: a, b)
  end.
Definition gword (stop : gopt -> bool) (o : list gopt) (rest : list str) (k : gres) : gres :=
  match split_stop stop o with
  | (pre, Some g) => GStop pre g rest
  | (_, None) => gcons o k
  end.

(* getopt_x selfopt stop sp args:
   selfopt w : the tool itself consumes the word w as an argument-less option before getopt sees it
               (nice -5); recorded as GL [] (Some w)
   stop g    : the tool stops option scanning when it meets option g (env -S re-parses); the result is
               GStop with the options seen before, g itself, and the unscanned words *)
Fixpoint getopt_x (selfopt : str -> bool) (stop : gopt -> bool) (sp : optspec) (args : list str) : gres :=
  match args with
  | [] => GOk [] []
  | a :: rest =>
      if selfopt a then gcons [GL [] (Some a)] (getopt_x selfopt stop sp rest) else
      match word_kind a with
      | WDDash => GOk [] rest                                            (* -- *)
      | WLong body =>                                                    (* --name[=value] *)
          let '(n, v) := split_eq body in
          match resolve_long n (longs sp) with
          | None => GErr
          | Some (m, ANo) =>
              match v with
              | Some _ => GErr
              | None => gword stop [GL m None] rest (getopt_x selfopt stop sp rest)
              end
          | Some (m, AOpt) => gword stop [GL m v] rest (getopt_x selfopt stop sp rest)
          | Some (m, AReq) =>
              match v with
              | Some x => gword stop [GL m (Some x)] rest (getopt_x selfopt stop sp rest)
              | None => match rest with
                        | x :: rest' => gword stop [GL m (Some x)] rest' (getopt_x selfopt stop sp rest')
                        | [] => GErr
                        end
              end
          end
      | WShort cs =>                                                     (* -abc *)
          match cluster sp cs with
          | CErr => GErr
          | CDone o => gword stop o rest (getopt_x selfopt stop sp rest)
          | CNeed o d => match rest with
                         | x :: rest' => gword stop (o ++ [GS d (Some x)]) rest' (getopt_x selfopt stop sp rest')
                         | [] => GErr
                         end
          end
      | WOperand => GOk [] args                                          (* first operand (also -) *)
      end
  end.

Definition getopt_plus : optspec -> list str -> gres := getopt_x (fun _ => false) (fun _ => false).

(* did an option occur (by short character or long name)? *)
Definition has_short (c : N) (o : list gopt) : bool :=
  existsb (fun g => match g with GS d _ => N.eqb c d | _ => false end) o.
Definition has_long (n : str) (o : list gopt) : bool :=
  existsb (fun g => match g with GL m _ => str_eqb n m | _ => false end) o.

Definition short_args (c : N) (o : list gopt) : list str :=
  flat_map (fun g => match g with GS d (Some a) => if N.eqb c d then [a] else [] | _ => [] end) o.
Definition long_args (n : str) (o : list gopt) : list str :=
  flat_map (fun g => match g with GL m (Some a) => if str_eqb n m then [a] else [] | _ => [] end) o.
