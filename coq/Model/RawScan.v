(* Model of analyzer._analyze_string_cmdsubs / _is_plain_raw: which $(...) and backtick
   texts are extracted from a raw string (a ${..} argument, an unquoted here-document
   body, a for(( )) header, a case pattern, a part-less [[ ]] operand). *)
From DippyV Require Import Base.Str.

Definition DOL := 36. Definition LP := 40. Definition RP := 41. Definition BT := 96.
Definition LT := 60. Definition GT := 62.

(* the inner while loop: find the ")" matching an already opened "$(" *)
Fixpoint find_close (depth : nat) (s acc : str) {struct s} : option (str * str) :=
  match s with
  | [] => None
  | c :: s1 =>
    if N.eqb c DOL then
      match s1 with
      | c2 :: s2 => if N.eqb c2 LP then find_close (S depth) s2 (acc ++ [DOL; LP])
                    else find_close depth s1 (acc ++ [c])
      | [] => find_close depth s1 (acc ++ [c])
      end
    else if N.eqb c RP then
      match depth with
      | 0%nat => None
      | 1%nat => Some (acc, s1)
      | S d => find_close d s1 (acc ++ [RP])
      end
    else find_close depth s1 (acc ++ [c])
  end.

Fixpoint find_bt (s acc : str) : option (str * str) :=
  match s with
  | [] => None
  | c :: s1 => if N.eqb c BT then Some (acc, s1) else find_bt s1 (acc ++ [c])
  end.

(* the outer loop; fuel >= length s is always enough (each step consumes a character) *)
Fixpoint scan (fuel : nat) (s : str) : list str :=
  match fuel with O => [] | S fuel =>
  match s with
  | [] => []
  | c :: s1 =>
    if N.eqb c DOL then
      match s1 with
      | c2 :: s2 =>
        if N.eqb c2 LP then
          match find_close 1 s2 [] with
          | Some (inner, rest) => inner :: scan fuel rest
          | None => scan fuel s1
          end
        else scan fuel s1
      | [] => []
      end
    else if N.eqb c BT then
      match find_bt s1 [] with
      | Some (inner, rest) => inner :: scan fuel rest
      | None => scan fuel s1
      end
    else scan fuel s1
  end end.

(* "$(" in s or "`" in s or "<(" in s or ">(" in s *)
Fixpoint has_opener (s : str) : bool :=
  match s with
  | [] => false
  | c :: s1 =>
      N.eqb c BT ||
      ((N.eqb c DOL || N.eqb c LT || N.eqb c GT) && match s1 with c2 :: _ => N.eqb c2 LP | [] => false end) ||
      has_opener s1
  end.

(* characters that make delimiting by counting unsafe: backslash, quotes, # *)
Definition unsafe_raw_chars : list N := [92; 39; 34; 35].

Fixpoint plain_loop (depth : nat) (ticks : nat) (s : str) {struct s} : bool :=
  match s with
  | [] => Nat.eqb depth 0 && Nat.even ticks
  | c :: s1 =>
    if N.eqb c DOL then
      match s1 with
      | c2 :: s2 => if N.eqb c2 LP then plain_loop (S depth) ticks s2 else plain_loop depth ticks s1
      | [] => plain_loop depth ticks s1
      end
    else if N.eqb c LP then false
    else if N.eqb c RP then
      match depth with O => false | S d => plain_loop d ticks s1 end
    else if N.eqb c BT then
      match depth with O => plain_loop depth (S ticks) s1 | S _ => false end
    else plain_loop depth ticks s1
  end.

(* _is_plain_raw *)
Definition plain_raw (s : str) : bool :=
  negb (existsb (fun c => mem_ch c unsafe_raw_chars) s) && plain_loop 0 0 s.

Inductive raw_result := RNone | RComplex | RSubs (l : list str).

(* _analyze_string_cmdsubs before the recursive analysis of each extracted text *)
Definition scan_raw (s : str) : raw_result :=
  if negb (has_opener s) then RNone
  else if negb (plain_raw s) then RComplex
  else RSubs (scan (S (length s)) s).

(* analyzer._has_unclosed_arith: some "$((" whose inner parenthesis is not closed by "))" *)
Fixpoint arith_closed (depth : nat) (s : str) : bool :=
  match s with
  | [] => false
  | c :: r =>
      if N.eqb c LP then arith_closed (S depth) r
      else if N.eqb c RP then
        match depth with
        | 2%nat => match r with c2 :: _ => N.eqb c2 RP | [] => false end
        | S d => arith_closed d r
        | O => false
        end
      else arith_closed depth r
  end.

Fixpoint unclosed_arith (s : str) : bool :=
  match s with
  | [] => false
  | _ :: r => (prefixb [DOL; LP; LP] s && negb (arith_closed 2 (skipn 3 s))) || unclosed_arith r
  end.

(* analyzer._count_openers: substitutions bash would start in a text - "$(" that is not "$((" and
   process substitutions outside single quotes (a backslash escapes the next character), plus pairs
   of backticks *)
Fixpoint count_openers_aux (s : str) (in_single in_double : bool) (count ticks : nat) {struct s} : nat :=
  match s with
  | [] => (count + Nat.div2 ticks)%nat
  | c :: r =>
      if in_single then count_openers_aux r (negb (N.eqb c 39)) in_double count ticks
      else if N.eqb c 92 then
        match r with
        | [] => (count + Nat.div2 ticks)%nat
        | _ :: r' => count_openers_aux r' false in_double count ticks
        end
      else if N.eqb c 39 && negb in_double then count_openers_aux r true in_double count ticks
      else if N.eqb c 34 then count_openers_aux r false (negb in_double) count ticks
      else if N.eqb c BT then count_openers_aux r false in_double count (S ticks)
      else if N.eqb c DOL && match r with c2 :: r2 => N.eqb c2 LP && negb (match r2 with c3 :: _ => N.eqb c3 LP | [] => false end) | [] => false end
        then count_openers_aux r false in_double (S count) ticks
      else if (N.eqb c LT || N.eqb c GT) && match r with c2 :: _ => N.eqb c2 LP | [] => false end && negb in_double
        then count_openers_aux r false in_double (S count) ticks
      else count_openers_aux r false in_double count ticks
  end.
Definition count_openers (s : str) : nat := count_openers_aux s false false 0 0.

(* _has_inert_opener: a "$(" or a backtick that quoting keeps from running now - inside single quotes, or after a
   backslash (outside single quotes) *)
Fixpoint inert_opener_aux (s : str) (in_single in_double : bool) {struct s} : bool :=
  match s with
  | [] => false
  | c :: r =>
      if in_single then
        if N.eqb c 39 then inert_opener_aux r false in_double
        else if N.eqb c 96 then true
        else if N.eqb c 36 && (match r with d :: _ => N.eqb d 40 | [] => false end) then true
        else inert_opener_aux r true in_double
      else if N.eqb c 92 then
        match r with
        | d :: r' =>
            if N.eqb d 96 then true
            else if N.eqb d 36 && (match r' with e :: _ => N.eqb e 40 | [] => false end) then true
            else inert_opener_aux r' false in_double
        | [] => false
        end
      else if N.eqb c 39 && negb in_double then inert_opener_aux r true in_double
      else if N.eqb c 34 then inert_opener_aux r false (negb in_double)
      else inert_opener_aux r false in_double
  end.
Definition has_inert_opener (s : str) : bool := inert_opener_aux s false false.

