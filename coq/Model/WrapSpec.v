(* SPEC: which programs the real wrappers/launchers execute.

     W_exec args : option (list (list str))
       Some argvs : the tool, called as  W args , executes exactly these argument vectors
                    (Some [] : it executes nothing - prints help, a value, or an environment)
       None       : the tool rejects the spelling, or this specification makes no claim about it

   GNU env, timeout, nice, nohup, xargs (coreutils 9.1 / findutils 4.9): Getopt.v with the option
   tables of their --help texts; find: the expression grammar of find(1); bash builtins command and
   builtin; bash and dash invocation; docker/kubectl exec: the flag tables of their --help texts
   with the pflag parsing rules.  Trusted, not proved; harness/c04.py runs every one of them against
   the real tool where the binary exists here (env, timeout, nice, nohup, xargs, find, bash, dash,
   docker client against a recording fake daemon) and reports disagreements. *)
From DippyV Require Import Base.Str Model.BashQuote Model.Getopt.

Definition S (x : string) : str := s2l x.
Definition lo (n : string) (k : akind) : str * akind := (s2l n, k).
Definition sh1 (c : string) (k : akind) : N * akind := (hd 0 (s2l c), k).
Definition c1 (c : string) : N := hd 0 (s2l c).

Definition all_digits (s : str) : bool := nonempty s && forallb (fun c => mem_ch c ascii_digits) s.
(* [+-]?digits *)
Definition int_ok (s : str) : bool :=
  match s with
  | c :: r => if N.eqb c 43 || N.eqb c 45 then all_digits r else all_digits s
  | [] => false
  end.
(* digits[.digits][smhd] *)
Fixpoint dur_tail (s : str) (seen_dot : bool) : bool :=
  match s with
  | [] => true
  | [c] => mem_ch c ascii_digits || mem_ch c [115; 109; 104; 100]
  | c :: r => if mem_ch c ascii_digits then dur_tail r seen_dot
              else if N.eqb c 46 && negb seen_dot then match r with d :: _ => mem_ch d ascii_digits && dur_tail r true | [] => false end
              else false
  end.
Definition dur_ok (s : str) : bool :=
  match s with c :: _ => mem_ch c ascii_digits && dur_tail s false | [] => false end.

Definition upper (s : str) : str := map (fun c => if N.leb 97 c && N.leb c 122 then c - 32 else c) s.
Definition SIGNAMES : list str :=
  map s2l ["HUP"; "INT"; "QUIT"; "ILL"; "TRAP"; "ABRT"; "BUS"; "FPE"; "KILL"; "USR1"; "SEGV"; "USR2"; "PIPE";
           "ALRM"; "TERM"; "CHLD"; "CONT"; "STOP"; "TSTP"; "TTIN"; "TTOU"; "URG"; "XCPU"; "XFSZ"; "VTALRM";
           "PROF"; "WINCH"; "IO"; "PWR"; "SYS"].
Definition sig_ok (s : str) : bool :=
  let u := upper s in
  let u := if prefixb (S "SIG") u then skipn 3 u else u in
  mem_str u SIGNAMES || (all_digits s && Nat.leb (length s) 2).
Definition siglist_ok (s : str) : bool := forallb sig_ok (split_ch 44 s).

Definition help_or_version (o : list gopt) : bool := has_long (S "help") o || has_long (S "version") o.

(* ------------------------------------------------------------------ nohup *)
Definition nohup_spec : optspec := {| shorts := []; longs := [lo "help" ANo; lo "version" ANo] |}.
Definition nohup_exec (args : list str) : option (list (list str)) :=
  match getopt_plus nohup_spec args with
  | GOk o ops => if help_or_version o then Some []
                 else match ops with [] => None | _ => Some [ops] end
  | _ => None
  end.

(* ------------------------------------------------------------------ timeout *)
Definition timeout_spec : optspec :=
  {| shorts := [sh1 "k" AReq; sh1 "s" AReq; sh1 "v" ANo];
     longs := [lo "kill-after" AReq; lo "signal" AReq; lo "verbose" ANo; lo "foreground" ANo;
               lo "preserve-status" ANo; lo "help" ANo; lo "version" ANo] |}.
Definition timeout_exec (args : list str) : option (list (list str)) :=
  match getopt_plus timeout_spec args with
  | GOk o ops =>
      if help_or_version o then Some []
      else if forallb dur_ok (short_args (c1 "k") o ++ long_args (S "kill-after") o)
              && forallb sig_ok (short_args (c1 "s") o ++ long_args (S "signal") o) then
        match ops with
        | d :: c :: cs => if dur_ok d then Some [c :: cs] else None
        | _ => None
        end
      else None
  | _ => None
  end.

(* ------------------------------------------------------------------ nice *)
(* the historical forms -N, --N, -+N which nice takes out of the word list itself *)
Definition nice_legacy (w : str) : bool :=
  match w with
  | 45 :: c :: r =>
      if N.eqb c 45 || N.eqb c 43 then match r with d :: _ => mem_ch d ascii_digits | [] => false end
      else mem_ch c ascii_digits
  | _ => false
  end.
Definition nice_spec : optspec :=
  {| shorts := [sh1 "n" AReq]; longs := [lo "adjustment" AReq; lo "help" ANo; lo "version" ANo] |}.
Definition nice_exec (args : list str) : option (list (list str)) :=
  match getopt_x nice_legacy (fun _ => false) nice_spec args with
  | GOk o ops =>
      if help_or_version o then Some []
      else
        let adjs := short_args (c1 "n") o ++ long_args (S "adjustment") o ++ map (skipn 1) (long_args [] o) in
        if forallb int_ok adjs then
          match ops with
          | [] => match adjs with [] => Some [] | _ => None end
          | _ => Some [ops]
          end
        else None
  | _ => None
  end.

(* ------------------------------------------------------------------ bash builtins: command, builtin *)
Definition command_spec : optspec :=
  {| shorts := [sh1 "p" ANo; sh1 "v" ANo; sh1 "V" ANo]; longs := [lo "help" ANo] |}.
Definition command_exec (args : list str) : option (list (list str)) :=
  match getopt_plus command_spec args with
  | GOk o ops =>
      if has_short (c1 "v") o || has_short (c1 "V") o || has_long (S "help") o then Some []
      else match ops with [] => Some [] | _ => Some [ops] end
  | _ => None
  end.
(* builtin NAME ARGS runs the shell builtin NAME: the result is the command line bash then interprets *)
Definition builtin_spec : optspec := {| shorts := []; longs := [lo "help" ANo] |}.
Definition builtin_exec (args : list str) : option (list (list str)) :=
  match getopt_plus builtin_spec args with
  | GOk o ops => if has_long (S "help") o then Some [] else match ops with [] => Some [] | _ => Some [ops] end
  | _ => None
  end.

(* ------------------------------------------------------------------ env *)
Definition env_spec : optspec :=
  {| shorts := [sh1 "i" ANo; sh1 "0" ANo; sh1 "u" AReq; sh1 "C" AReq; sh1 "S" AReq; sh1 "v" ANo];
     longs := [lo "ignore-environment" ANo; lo "null" ANo; lo "unset" AReq; lo "chdir" AReq;
               lo "split-string" AReq; lo "block-signal" AOpt; lo "default-signal" AOpt;
               lo "ignore-signal" AOpt; lo "list-signal-handling" ANo; lo "debug" ANo;
               lo "help" ANo; lo "version" ANo] |}.
Definition env_is_S (g : gopt) : bool :=
  match g with GS c _ => N.eqb c (c1 "S") | GL n _ => str_eqb n (S "split-string") end.
(* -S strings this spec covers: words of ordinary characters separated by blanks (no quotes,
   backslashes, $, #) *)
Definition env_split (s : str) : option (list str) :=
  if forallb (fun c => unq_literal c || is_blank c) s then Some (split_ws [32; 9] s) else None.
Definition env_opts_ok (o : list gopt) : bool :=
  forallb (fun n => nonempty n && negb (mem_ch 61 n)) (short_args (c1 "u") o ++ long_args (S "unset") o)
  && forallb siglist_ok (long_args (S "block-signal") o ++ long_args (S "default-signal") o ++ long_args (S "ignore-signal") o).
Fixpoint drop_assign (l : list str) : list str :=
  match l with w :: r => if mem_ch 61 w then drop_assign r else l | [] => [] end.
Fixpoint env_exec_f (fuel : nat) (args : list str) : option (list (list str)) :=
  match fuel with
  | O => None
  | Datatypes.S f =>
      match getopt_x (fun _ => false) env_is_S env_spec args with
      | GErr => None
      | GStop o g rest =>
          if help_or_version o || negb (env_opts_ok o) then None
          else match g with
               | GS _ (Some s) | GL _ (Some s) =>
                   match env_split s with Some ws => env_exec_f f (ws ++ rest) | None => None end
               | _ => None
               end
      | GOk o ops =>
          if help_or_version o then Some []
          else if negb (env_opts_ok o) then None
          else
            let ops := match ops with w :: r => if str_eqb w [45] then r else ops | [] => [] end in
            match drop_assign ops with
            | [] => Some []
            | cmd => if has_short (c1 "0") o || has_long (S "null") o then None else Some [cmd]
            end
      end
  end.
Definition env_exec (args : list str) : option (list (list str)) :=
  env_exec_f (Datatypes.S (length args + length (concat args))) args.

(* ------------------------------------------------------------------ xargs *)
Definition xargs_spec : optspec :=
  {| shorts := [sh1 "0" ANo; sh1 "a" AReq; sh1 "E" AReq; sh1 "e" AOpt; sh1 "i" AOpt; sh1 "I" AReq;
                sh1 "l" AOpt; sh1 "L" AReq; sh1 "n" AReq; sh1 "p" ANo; sh1 "r" ANo; sh1 "s" AReq;
                sh1 "t" ANo; sh1 "x" ANo; sh1 "P" AReq; sh1 "d" AReq; sh1 "o" ANo];
     longs := [lo "null" ANo; lo "arg-file" AReq; lo "delimiter" AReq; lo "eof" AOpt; lo "replace" AOpt;
               lo "max-lines" AOpt; lo "max-args" AReq; lo "open-tty" ANo; lo "interactive" ANo;
               lo "no-run-if-empty" ANo; lo "max-chars" AReq; lo "verbose" ANo; lo "show-limits" ANo;
               lo "exit" ANo; lo "max-procs" AReq; lo "process-slot-var" AReq; lo "help" ANo; lo "version" ANo] |}.
Definition pos_num (s : str) : bool := all_digits s && negb (forallb (N.eqb 48) s).
Definition xargs_exec (args : list str) : option (list (list str)) :=
  match getopt_plus xargs_spec args with
  | GOk o ops =>
      if help_or_version o then Some []
      else if has_short (c1 "p") o || has_long (S "interactive") o || has_short (c1 "o") o || has_long (S "open-tty") o
      then None                                          (* interactive: no claim *)
      else if forallb pos_num (short_args (c1 "n") o ++ long_args (S "max-args") o ++ short_args (c1 "L") o
                               ++ short_args (c1 "l") o ++ long_args (S "max-lines") o ++ short_args (c1 "s") o
                               ++ long_args (S "max-chars") o)
              && forallb all_digits (short_args (c1 "P") o ++ long_args (S "max-procs") o)
              && forallb (fun d => Nat.eqb (length d) 1) (short_args (c1 "d") o ++ long_args (S "delimiter") o)
              && forallb (fun v => nonempty v && negb (mem_ch 61 v)) (long_args (S "process-slot-var") o)
              && forallb nonempty (short_args (c1 "I") o ++ short_args (c1 "E") o)
      then match ops with [] => Some [[S "echo"]] | _ => Some [ops] end
      else None
  | _ => None
  end.

(* ------------------------------------------------------------------ find *)
Definition FIND_OPERATORS : list str := map s2l ["("; ")"; "!"; ","; "-not"; "-a"; "-and"; "-o"; "-or"].
Definition FIND_NULLARY : list str :=
  map s2l ["-daystart"; "-follow"; "-nowarn"; "-warn"; "-depth"; "-d"; "-mount"; "-xdev"; "-noleaf";
           "-ignore_readdir_race"; "-noignore_readdir_race"; "-empty"; "-executable"; "-false"; "-nogroup";
           "-nouser"; "-readable"; "-true"; "-writable"; "-delete"; "-ls"; "-print"; "-print0"; "-prune"; "-quit"].
Definition FIND_UNARY : list str :=
  map s2l ["-maxdepth"; "-mindepth"; "-regextype"; "-files0-from"; "-amin"; "-anewer"; "-atime"; "-cmin";
           "-cnewer"; "-ctime"; "-fstype"; "-gid"; "-group"; "-ilname"; "-iname"; "-inum"; "-ipath"; "-iregex";
           "-iwholename"; "-links"; "-lname"; "-mmin"; "-mtime"; "-name"; "-newer"; "-path"; "-perm"; "-regex";
           "-samefile"; "-size"; "-type"; "-uid"; "-used"; "-user"; "-wholename"; "-xtype"; "-context";
           "-fls"; "-fprint"; "-fprint0"; "-printf"].
Definition FIND_BINARY : list str := map s2l ["-fprintf"].
Definition FIND_EXEC : list str := map s2l ["-exec"; "-execdir"; "-ok"; "-okdir"].
Definition FIND_NEWER_XY : list N := [97; 66; 99; 109; 116].  (* a B c m t *)
Definition find_newerxy (w : str) : bool :=
  match w with
  | 45 :: 110 :: 101 :: 119 :: 101 :: 114 :: x :: y :: [] => mem_ch x FIND_NEWER_XY && mem_ch y FIND_NEWER_XY
  | _ => false
  end.
Definition dashb (w : str) : bool := match w with c :: _ => N.eqb c 45 | [] => false end.
Definition looks_like_expr (w : str) : bool :=
  (dashb w && Nat.ltb 1 (length w)) || mem_str w (map s2l ["("; ")"; "!"; ","]).

Inductive fstate :=
| FLead                                   (* -H -L -P -D x -On *)
| FPaths
| FExpr
| FSkip (n : nat)                         (* skipping n argument words of a primary *)
| FClause (acc : list str) (braces : bool).  (* inside -exec ...; braces: the previous word was {} *)

Fixpoint find_run (l : list str) (st : fstate) : option (list (list str)) :=
  match l with
  | [] => match st with FLead | FPaths | FExpr => Some [] | _ => None end
  | w :: r =>
      let expr_word :=
        if mem_str w FIND_OPERATORS then find_run r FExpr
        else if mem_str w FIND_EXEC then find_run r (FClause [] false)
        else if mem_str w FIND_NULLARY then find_run r FExpr
        else if mem_str w FIND_UNARY || find_newerxy w then find_run r (FSkip 1)
        else if mem_str w FIND_BINARY then find_run r (FSkip 2)
        else None in
      match st with
      | FLead =>
          if mem_str w (map s2l ["-H"; "-L"; "-P"]) then find_run r FLead
          else if str_eqb w (S "-D") then find_run r (FSkip 1)        (* then back in FExpr: no claim about paths after -D *)
          else if prefixb (S "-O") w && all_digits (skipn 2 w) then find_run r FLead
          else if looks_like_expr w then expr_word
          else find_run r FPaths
      | FPaths => if looks_like_expr w then expr_word else find_run r FPaths
      | FExpr => expr_word
      | FSkip (Datatypes.S O) => find_run r FExpr
      | FSkip (Datatypes.S n) => find_run r (FSkip n)
      | FSkip O => None
      | FClause acc braces =>
          if str_eqb w (S ";") || (str_eqb w (S "+") && braces) then
            match acc with
            | [] => None
            | _ => match find_run r FExpr with Some cs => Some (rev acc :: cs) | None => None end
            end
          else find_run r (FClause (w :: acc) (str_eqb w (S "{}")))
      end
  end.
(* the commands find may execute (one entry per -exec/-execdir/-ok/-okdir clause, {} not substituted) *)
Definition find_exec (args : list str) : option (list (list str)) := find_run args FLead.

(* ------------------------------------------------------------------ bash / sh invocation *)
Inductive shell_act :=
| SString (s : str)        (* runs the command string s *)
| SFile (f : str)          (* runs the script file f *)
| SStdin                   (* reads commands from standard input / interactive *)
| SNothing.                (* prints help or version *)

Definition BASH_LONG_NOARG : list str :=
  map s2l ["debug"; "debugger"; "dump-po-strings"; "dump-strings"; "login"; "noediting"; "noprofile"; "norc";
           "posix"; "pretty-print"; "restricted"; "verbose"].
Definition BASH_LONG_ARG : list str := map s2l ["init-file"; "rcfile"].
Definition BASH_SHORT_FLAGS : list N := map c1 ["a"; "b"; "e"; "f"; "h"; "k"; "m"; "n"; "p"; "t"; "u"; "v"; "x";
                                                "B"; "C"; "E"; "H"; "I"; "P"; "T"; "i"; "l"; "r"; "D"].
(* one short-option word without its sign: (has c, has s, number of o/O names to take) ; None = invalid *)
Fixpoint bash_cluster (cs : str) : option (bool * bool * nat) :=
  match cs with
  | [] => Some (false, false, O)
  | c :: r =>
      match bash_cluster r with
      | None => None
      | Some (hc, hs, n) =>
          if N.eqb c 99 then Some (true, hs, n)
          else if N.eqb c 115 then Some (hc, true, n)
          else if N.eqb c 111 || N.eqb c 79 then Some (hc, hs, Datatypes.S n)
          else if mem_ch c BASH_SHORT_FLAGS then Some (hc, hs, n)
          else None
      end
  end.
Definition bash_finish (want_c want_s : bool) (ops : list str) : option shell_act :=
  if want_c then match ops with s :: _ => Some (SString s) | [] => None end
  else if want_s then Some SStdin
  else match ops with f :: _ => Some (SFile f) | [] => Some SStdin end.
Definition optname_ok (w : str) : bool := nonempty w && forallb (fun ch => ascii_alnum ch || N.eqb ch 95) w.
(* short-option words ( -abc  +abc ); owed = option names still to be taken for earlier o/O letters
   (a missing name is an error or a listing: no claim) *)
Fixpoint sh_short (cluster : str -> option (bool * bool * nat)) (l : list str) (want_c want_s : bool) (owed : nat)
  : option shell_act :=
  match l with
  | [] => match owed with O => bash_finish want_c want_s [] | _ => None end
  | w :: r =>
      match owed with
      | Datatypes.S k => if optname_ok w then sh_short cluster r want_c want_s k else None
      | O =>
          if str_eqb w [45] || str_eqb w [45; 45] then bash_finish want_c want_s r     (* -  and  -- *)
          else
            match w with
            | sign :: c :: cs =>
                if N.eqb sign 45 || N.eqb sign 43 then
                  match cluster (c :: cs) with
                  | None => None
                  | Some (hc, hs, n) => sh_short cluster r (want_c || hc) (want_s || hs) n
                  end
                else bash_finish want_c want_s l
            | _ => bash_finish want_c want_s l
            end
      end
  end.
(* bash: long options first (one or two dashes), then the short ones *)
Definition bash_long_name (w : str) : option (str * bool) :=   (* name, written with two dashes *)
  match w with
  | 45 :: 45 :: c :: r => Some (c :: r, true)
  | 45 :: c :: r => Some (c :: r, false)
  | _ => None
  end.
Fixpoint bash_long (l : list str) : option shell_act :=
  match l with
  | [] => Some SStdin
  | w :: r =>
      match bash_long_name w with
      | Some (n, two) =>
          if mem_str n BASH_LONG_NOARG then bash_long r
          else if mem_str n BASH_LONG_ARG then match r with _ :: r' => bash_long r' | [] => None end
          else if mem_str n [S "help"; S "version"] then Some SNothing
          else if two then None
          else sh_short bash_cluster l false false O
      | None => sh_short bash_cluster l false false O
      end
  end.
Definition bash_exec (args : list str) : option shell_act := bash_long args.

(* dash (/bin/sh here): no long options *)
Definition DASH_SHORT_FLAGS : list N := map c1 ["a"; "C"; "e"; "f"; "I"; "i"; "m"; "n"; "u"; "v"; "x"; "V"; "E"; "b"; "l"].
Fixpoint dash_cluster (cs : str) : option (bool * bool * nat) :=
  match cs with
  | [] => Some (false, false, O)
  | c :: r =>
      match dash_cluster r with
      | None => None
      | Some (hc, hs, n) =>
          if N.eqb c 99 then Some (true, hs, n)
          else if N.eqb c 115 then Some (hc, true, n)
          else if N.eqb c 111 then Some (hc, hs, Datatypes.S n)
          else if mem_ch c DASH_SHORT_FLAGS then Some (hc, hs, n)
          else None
      end
  end.
Definition dash_exec (args : list str) : option shell_act := sh_short dash_cluster args false false O.

Definition shell_exec (tokens : list str) : option shell_act :=
  match tokens with
  | base :: args =>
      if str_eqb base (S "bash") then bash_exec args
      else if str_eqb base (S "sh") || str_eqb base (S "dash") then dash_exec args
      else None
  | [] => None
  end.

(* ------------------------------------------------------------------ pflag (docker, kubectl) *)
(* spf13/pflag: --name=value / --name value for flags with a value, --bool / --bool=value;
   shorthand clusters -it ; a shorthand with a value takes the rest of the word (a leading = dropped)
   or, if nothing is left, the next word whatever it is; no abbreviations; -- ends the flags.
   interspersed = false: the first positional word ends the flags. *)
Record pspec := { p_bool_s : list N; p_val_s : list N; p_bool_l : list str; p_val_l : list str }.
(* result: positionals before -- , positionals after -- (None: no --), help requested *)
Inductive pres := PErr | POk (pos : list str) (after : option (list str)) (help : bool).
Definition pcons (w : str) (r : pres) : pres :=
  match r with POk p a h => POk (w :: p) a h | PErr => PErr end.
Definition phelp (r : pres) : pres := match r with POk p a _ => POk p a true | PErr => PErr end.
Inductive pcl := PCErr | PCDone | PCNeed | PCHelp.
Fixpoint pcluster (sp : pspec) (cs : str) : pcl :=
  match cs with
  | [] => PCDone
  | c :: r =>
      if N.eqb c 104 then PCHelp                                   (* -h *)
      else if mem_ch c (p_val_s sp) then match r with [] => PCNeed | _ => PCDone end
      else if mem_ch c (p_bool_s sp) then
        if (match r with d :: _ => N.eqb d 61 | [] => false end) then PCErr (* -b=value: no claim *) else pcluster sp r
      else PCErr
  end.
Fixpoint pflag (sp : pspec) (interspersed : bool) (l : list str) : pres :=
  match l with
  | [] => POk [] None false
  | w :: r =>
      match word_kind w with
      | WDDash => POk [] (Some r) false
      | WLong body =>
          let '(n, v) := split_eq body in
          if str_eqb n (S "help") then phelp (pflag sp interspersed r)
          else if mem_str n (p_val_l sp) then
            match v with
            | Some _ => pflag sp interspersed r
            | None => match r with _ :: r' => pflag sp interspersed r' | [] => PErr end
            end
          else if mem_str n (p_bool_l sp) then
            match v with Some _ => PErr (* --bool=value: no claim *) | None => pflag sp interspersed r end
          else PErr
      | WShort cs =>
          match pcluster sp cs with
          | PCErr => PErr
          | PCHelp => phelp (pflag sp interspersed r)
          | PCDone => pflag sp interspersed r
          | PCNeed => match r with _ :: r' => pflag sp interspersed r' | [] => PErr end
          end
      | WOperand => if interspersed then pcons w (pflag sp interspersed r) else POk l None false
      end
  end.

(* docker [GLOBAL] exec [OPTIONS] CONTAINER COMMAND [ARG...]   (docker --help, docker exec --help; 29.x) *)
Definition docker_global : pspec :=
  {| p_bool_s := map c1 ["D"; "v"]; p_val_s := map c1 ["c"; "H"; "l"];
     p_bool_l := map s2l ["debug"; "tls"; "tlsverify"; "version"];
     p_val_l := map s2l ["config"; "context"; "host"; "log-level"; "tlscacert"; "tlscert"; "tlskey"] |}.
Definition docker_exec_flags : pspec :=
  {| p_bool_s := map c1 ["d"; "i"; "t"]; p_val_s := map c1 ["e"; "u"; "w"];
     p_bool_l := map s2l ["detach"; "interactive"; "tty"; "privileged"];
     p_val_l := map s2l ["detach-keys"; "env"; "env-file"; "user"; "workdir"] |}.
Definition joinpos (p : list str) (a : option (list str)) : list str := match a with Some x => p ++ x | None => p end.
Definition docker_exec_args (args : list str) : option (list (list str)) :=   (* the words after exec *)
  match pflag docker_exec_flags false args with
  | POk p a h =>
      if h then Some []
      else match joinpos p a with
           | _container :: c :: cs => Some [c :: cs]
           | _ => None
           end
  | PErr => None
  end.
Definition docker_exec (args : list str) : option (list (list str)) :=        (* the words after docker *)
  match pflag docker_global false args with
  | POk p a h =>
      if h then Some []
      else match joinpos p a with
           | sub :: rest =>
               if str_eqb sub (S "exec") then docker_exec_args rest
               else if str_eqb sub (S "container") then
                 match rest with
                 | e :: rest' => if str_eqb e (S "exec") then docker_exec_args rest' else None
                 | [] => None
                 end
               else None
           | [] => None
           end
  | PErr => None
  end.

(* kubectl [flags] exec (POD | TYPE/NAME) [-c CONTAINER] [flags] -- COMMAND [args...]   (kubectl 1.2x) *)
Definition kubectl_flags : pspec :=
  {| p_bool_s := map c1 ["i"; "t"; "q"]; p_val_s := map c1 ["c"; "f"; "n"; "s"; "v"];
     p_bool_l := map s2l ["stdin"; "tty"; "quiet"; "insecure-skip-tls-verify"; "match-server-version";
                          "disable-compression"; "warnings-as-errors"];
     p_val_l := map s2l ["container"; "filename"; "pod-running-timeout"; "namespace"; "server"; "v"; "as"; "as-group";
                         "as-uid"; "cache-dir"; "certificate-authority"; "client-certificate"; "client-key";
                         "cluster"; "context"; "kubeconfig"; "log-flush-frequency"; "password"; "profile";
                         "profile-output"; "request-timeout"; "tls-server-name"; "token"; "user"; "username";
                         "vmodule"] |}.
Definition kubectl_exec (args : list str) : option (list (list str)) :=       (* the words after kubectl *)
  match pflag kubectl_flags true args with
  | POk p a h =>
      if h then Some []
      else match p with
           | sub :: before =>
               if str_eqb sub (S "exec") then
                 match a with
                 | Some (c :: cs) => Some [c :: cs]                       (* everything after -- *)
                 | Some [] => None
                 | None => match before with _pod :: c :: cs => Some [c :: cs] | _ => None end
                 end
               else None
           | [] => None
           end
  | PErr => None
  end.

(* ------------------------------------------------------------------ fd (fd --help, 8.x-10.x; not validated) *)
(* -x/--exec and -X/--exec-batch take every following word up to a lone ; *)
Definition FD_VAL_S : list N := map c1 ["d"; "E"; "t"; "e"; "S"; "o"; "c"; "j"].
Definition FD_VAL_L : list str :=
  map s2l ["max-depth"; "min-depth"; "exact-depth"; "exclude"; "type"; "extension"; "size"; "changed-within";
           "changed-before"; "owner"; "color"; "threads"; "max-results"; "base-directory"; "path-separator";
           "search-path"; "format"; "ignore-file"; "batch-size"; "and"; "max-buffer-time"; "newer"; "older";
           "change-newer-than"; "change-older-than"; "gen-completions"].
Definition FD_BOOL_S : list N := map c1 ["H"; "I"; "u"; "s"; "i"; "g"; "F"; "a"; "l"; "L"; "p"; "0"; "q"; "1"; "V"].
Fixpoint fd_until_semi (l : list str) : list str * list str :=
  match l with
  | [] => ([], [])
  | w :: r => if str_eqb w (S ";") then ([], r) else let '(a, b) := fd_until_semi r in (w :: a, b)
  end.
(* fd --help, --exec: "If no placeholder is present, an implicit "{}" at the end is assumed"; the placeholders are
   {} {/} {//} {.} {/.} and may stand inside a word; the appended/substituted path is left as the word {} *)
Definition FD_PLACEHOLDERS_SPEC : list str := map s2l ["{.}"; "{/.}"; "{//}"; "{/}"; "{}"].
Definition fd_path (c : list str) : list str :=
  if existsb (fun w => existsb (fun p => infixb p w) FD_PLACEHOLDERS_SPEC) c then c else c ++ [S "{}"].
Inductive fdc := FDErr | FDPlain | FDNeed | FDExec (attached : str).
Fixpoint fd_cluster (cs : str) : fdc :=
  match cs with
  | [] => FDPlain
  | c :: r =>
      if N.eqb c 120 || N.eqb c 88 then FDExec r
      else if mem_ch c FD_VAL_S then match r with [] => FDNeed | _ => FDPlain end
      else if mem_ch c FD_BOOL_S then fd_cluster r
      else FDErr
  end.
Fixpoint fd_run (fuel : nat) (l : list str) : option (list (list str)) :=
  match fuel with
  | O => None
  | Datatypes.S f =>
      let exec_here (first : list str) (r : list str) :=
        let '(cmd, rest) := fd_until_semi r in
        match first ++ cmd with
        | [] => None
        | c => match fd_run f rest with Some cs => Some (fd_path c :: cs) | None => None end
        end in
      match l with
      | [] => Some []
      | w :: r =>
          match word_kind w with
          | WDDash => Some []
          | WLong body =>
              let '(n, v) := split_eq body in
              if str_eqb n (S "exec") || str_eqb n (S "exec-batch") then
                exec_here (match v with Some x => [x] | None => [] end) r
              else if mem_str n FD_VAL_L then
                match v with Some _ => fd_run f r | None => match r with _ :: r' => fd_run f r' | [] => None end end
              else match v with Some _ => None | None => fd_run f r end      (* any other long flag: boolean *)
          | WShort cs =>
              match fd_cluster cs with
              | FDErr => None
              | FDPlain => fd_run f r
              | FDNeed => match r with _ :: r' => fd_run f r' | [] => None end
              | FDExec att => exec_here (match att with [] => [] | _ => [att]  end) r
              end
          | WOperand => fd_run f r
          end
      end
  end.
Definition fd_exec (args : list str) : option (list (list str)) := fd_run (Datatypes.S (length args)) args.

(* ------------------------------------------------------------------ dispatch on the command name *)
Definition wrapper_exec (tokens : list str) : option (list (list str)) :=
  match tokens with
  | base :: args =>
      if str_eqb base (S "nohup") then nohup_exec args
      else if str_eqb base (S "timeout") then timeout_exec args
      else if str_eqb base (S "nice") then nice_exec args
      else if str_eqb base (S "command") then command_exec args
      else if str_eqb base (S "builtin") then builtin_exec args
      else if str_eqb base (S "env") then env_exec args
      else if str_eqb base (S "xargs") then xargs_exec args
      else if str_eqb base (S "find") then find_exec args
      else if str_eqb base (S "fd") then fd_exec args
      else if str_eqb base (S "docker") || str_eqb base (S "podman") then docker_exec args
      else if str_eqb base (S "kubectl") then kubectl_exec args
      else None
  | [] => None
  end.
