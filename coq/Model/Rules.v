(* config._match_words, _match_redirect, match_command, match_after, match_mcp, match_after_mcp,
   _resolve_alias, _normalize_redirect_pattern over rule lists. *)
From DippyV Require Import Base.Str Base.Verdict Model.Fnmatch Model.Glob2 Model.Paths.

Record rule := mkRule {
  r_dec : verdict;
  r_pat : str;
  r_msg : option str;
  r_exact : bool;
  r_tag : str            (* source and scope: carried into the Match, never read by the matcher *)
}.

(* `result = None; for rule in rules: if m rule: result = rule` *)
Definition last_match {R} (m : R -> bool) (rs : list R) : option R :=
  fold_left (fun acc r => if m r then Some r else acc) rs None.

(* the readable specification: the first match when the list is read backwards *)
Definition last_such {R} (m : R -> bool) (rs : list R) : option R := find m (rev rs).

Definition has_glob (p : str) : bool := mem_ch c_star p || mem_ch c_q p || mem_ch c_lb p.
Definition sp_star : str := [c_sp; c_star].

(* the body of the loop of _match_words / match_after, on the normalised strings *)
Definition pat_matches (np : str) (exact : bool) (cmd : str) : bool :=
  if negb exact && negb (has_glob np) then
    fnmatch cmd (np ++ sp_star) || str_eqb cmd np
  else
    fnmatch cmd np || (suffixb sp_star np && str_eqb cmd (firstn (length np - 2)%nat np)).

Section Rules.
  Variable resolve1 : str -> str.
  Variable resolve2 : str -> str -> str.
  Variable home : str.

  Notation ntoken := (normalize_token resolve1 resolve2 home).
  Notation nwords := (normalize_words resolve1 resolve2 home).
  Notation npattern := (normalize_pattern resolve1 resolve2 home).
  Notation npath := (normalize_path resolve1 resolve2 home).

  (* aliases: dict items in insertion order *)
  Fixpoint resolve_alias (aliases : list (str * str)) (cwd word : str) : str :=
    match aliases with
    | [] => word
    | (src, tgt) :: r =>
        if str_eqb (ntoken cwd word) (ntoken cwd src) then tgt else resolve_alias r cwd word
    end.

  Definition resolved_words (aliases : list (str * str)) (cwd : str) (words : list str) : list str :=
    match words with
    | [] => []
    | w :: ws => resolve_alias aliases cwd w :: ws
    end.

  (* the string the command rules are matched against *)
  Definition cmd_string (aliases : list (str * str)) (cwd : str) (remote : bool) (words : list str) : str :=
    if remote then join [c_sp] (map (expand_home_only home) words)   (* since 098b659: a leading ~ as in the patterns (parse time) *)
    else nwords cwd (resolved_words aliases cwd words).

  Definition rule_pattern (cwd : str) (remote : bool) (r : rule) : str :=
    if remote then r_pat r else npattern cwd (r_pat r).

  Definition word_rule_matches (cwd : str) (remote : bool) (cmd : str) (r : rule) : bool :=
    pat_matches (rule_pattern cwd remote r) (r_exact r) cmd.

  Definition match_words (aliases : list (str * str)) (rules : list rule) (cwd : str) (remote : bool)
             (words : list str) : option rule :=
    last_match (word_rule_matches cwd remote (cmd_string aliases cwd remote words)) rules.

  (* _normalize_redirect_pattern *)
  Fixpoint index_of (needle s : str) : option nat :=
    if prefixb needle s then Some O
    else match s with [] => None | _ :: s' => option_map S (index_of needle s') end.

  Definition normalize_redirect_pattern (cwd p : str) : str :=
    match index_of star2 p with
    | None => npath cwd p
    | Some idx =>
        let prefix := rstrip [c_slash] (firstn idx p) in
        let suffix := skipn idx p in
        match prefix with
        | [] => p
        | _ => npath cwd prefix ++ c_slash :: suffix
        end
    end.

  Definition redirect_rule_result (cwd target : str) (r : rule) : g2res :=
    glob_match (npath cwd target) (normalize_redirect_pattern cwd (r_pat r)).
  Definition redirect_rule_matches (cwd target : str) (r : rule) : bool :=
    g2_true (redirect_rule_result cwd target r).

  Definition match_redirect (rrules : list rule) (cwd target : str) : option rule :=
    last_match (redirect_rule_matches cwd target) rrules.
  (* does every rule stay inside the modelled fragment of Glob2? *)
  Definition redirect_supported (rrules : list rule) (cwd target : str) : bool :=
    forallb (fun r => g2_supported (redirect_rule_result cwd target r)) rrules.

  (* match_command: the command match, then the match of every redirect target, in order;
     first deny, else first ask, else the first match *)
  Definition opt_list {T} (o : option T) : list T := match o with Some x => [x] | None => [] end.
  Definition priority (ms : list rule) : option rule :=
    match find (fun m => is_deny (r_dec m)) ms with
    | Some m => Some m
    | None =>
        match find (fun m => is_ask (r_dec m)) ms with
        | Some m => Some m
        | None => hd_error ms
        end
    end.

  Definition command_matches (aliases : list (str * str)) (rules rrules : list rule) (cwd : str) (remote : bool)
             (words redirects : list str) : list rule :=
    opt_list (match_words aliases rules cwd remote words)
    ++ (if remote then [] else flat_map (fun t => opt_list (match_redirect rrules cwd t)) redirects).

  Definition match_command aliases rules rrules cwd remote words redirects : option rule :=
    priority (command_matches aliases rules rrules cwd remote words redirects).

  (* match_after: same loop over after_rules (never remote), result = message or "" *)
  Definition after_message (r : rule) : str := match r_msg r with Some m => m | None => [] end.
  Definition match_after (aliases : list (str * str)) (arules : list rule) (cwd : str) (words : list str) : option str :=
    option_map after_message
      (last_match (word_rule_matches cwd false (cmd_string aliases cwd false words)) arules).
End Rules.

(* match_mcp / match_after_mcp: plain fnmatch of the tool name, last match wins *)
Definition mcp_rule_matches (tool : str) (r : rule) : bool := fnmatch tool (r_pat r).
Definition match_mcp (mrules : list rule) (tool : str) : option rule := last_match (mcp_rule_matches tool) mrules.
Definition match_after_mcp (mrules : list rule) (tool : str) : option str :=
  option_map after_message (last_match (mcp_rule_matches tool) mrules).
