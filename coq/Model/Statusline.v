(* Model of src/dippy/dippy_statusline.py and bin/dippy-statusline (property C20).

   Part 1  values delivered by json.load, truthiness, dict.get
   Part 2  posixpath.join / basename / dirname, get_cache_path, the tmp name of set_cache
   Part 3  style() and the palette (constants come from Gen/Tables.v)
   Part 4  control flow of main / get_cached / set_cache / build_statusline and of the
           data-source functions; the body of every try block that touches the outside
           world (git, files, clock, interpreter formatting) is an oracle that returns
           a value or raises; the except clauses are in the model
   Part 5  histories of invocations sharing a cache (text-mode read = universal newlines)
   Part 6  the cache-write protocol as a transition system over inodes, names, writer
           and reader processes: open(tmp.<pid>,"w") ; write* ; close ; rename ; and
           open(path) ; read* ; close ; kill at any point; and the two broken variants
           (write in place, tmp name without pid)

   Not modelled: the Logger (every method swallows Exception and nothing of it reaches
   stdout), the wording of log events.  Conservative: hex_to_rgb accepts exactly two hex
   digits per channel (Python's int(x,16) accepts more; the palette never needs it). *)
From Coq Require Import ZArith.
From DippyV Require Import Base.Str Gen.Tables.

(* ================================================================= Part 1 *)
Inductive json :=
| JNull
| JBool (b : bool)
| JNum (zero : bool) (txt : str)       (* int or float; zero = (v == 0); txt = str(v) *)
| JStr (s : str)
| JArr (l : list json)
| JObj (kv : list (str * json)).

(* bool(v) *)
Definition truthy (v : json) : bool :=
  match v with
  | JNull => false
  | JBool b => b
  | JNum z _ => negb z
  | JStr s => nonempty s
  | JArr l => nonempty l
  | JObj kv => nonempty kv
  end.

Inductive res (A : Type) := Ok (a : A) | Raise.     (* Raise: some subclass of Exception *)
Arguments Ok {A} a.
Arguments Raise {A}.

Fixpoint assoc (k : str) (kv : list (str * json)) : option json :=
  match kv with
  | [] => None
  | (a, v) :: r => if str_eqb a k then Some v else assoc k r
  end.

(* d.get(k, dflt): AttributeError unless d is a dict *)
Definition jget (d : json) (k : str) (dflt : json) : res json :=
  match d with
  | JObj kv => Ok (match assoc k kv with Some v => v | None => dflt end)
  | _ => Raise
  end.

(* ================================================================= Part 2 *)
Definition slash : N := 47.
Definition is_slash (c : N) : bool := N.eqb c slash.

(* s.replace(a, b) for single characters a, b *)
Definition replace_ch (a b : N) (s : str) : str := map (fun c => if N.eqb c a then b else c) s.

(* posixpath.join(a, b) *)
Definition path_join (a b : str) : str :=
  if prefixb [slash] b then b
  else if negb (nonempty a) || suffixb [slash] a then a ++ b
  else a ++ [slash] ++ b.

(* (p[:i], p[i:]) with i = p.rfind("/") + 1 *)
Fixpoint split_last (p : str) : str * str :=
  match p with
  | [] => ([], [])
  | c :: r =>
      let (h, t) := split_last r in
      match h with
      | [] => if is_slash c then ([c], t) else ([], c :: t)
      | _ => (c :: h, t)
      end
  end.
Definition basename (p : str) : str := snd (split_last p).
Definition dirname (p : str) : str :=
  let h := fst (split_last p) in
  if nonempty h && negb (forallb is_slash h) then rstrip [slash] h else h.

Section Paths.
  Variable base : str.       (* os.environ.get("XDG_CACHE_HOME", os.path.expanduser("~/.cache")) *)
  Variable pid : str.        (* str(os.getpid()) *)

  Definition cache_dir : str := path_join base SL_CACHE_DIR_NAME.

  (* get_cache_path(session_id): None = raises (AttributeError: no .replace) *)
  Definition get_cache_path (sid : json) : option str :=
    if truthy sid then
      match sid with
      | JStr s => Some (path_join cache_dir (replace_ch SL_SID_FROM SL_SID_TO s ++ SL_CACHE_SUFFIX))
      | _ => None
      end
    else Some (path_join cache_dir (SL_SID_DEFAULT ++ SL_CACHE_SUFFIX)).

  (* tmp = f"{path}.tmp.{os.getpid()}" *)
  Definition tmp_of (path : str) : str := path ++ SL_TMP_INFIX ++ pid.

  (* MCP_CACHE_PATH, and the tmp name the refresh pipeline of get_mcp_servers redirects into *)
  Definition mcp_cache_path : str := path_join cache_dir SL_MCP_CACHE_NAME.
  Definition mcp_tmp : str := mcp_cache_path ++ SL_MCP_TMP_INFIX ++ pid.
End Paths.

(* ================================================================= Part 3 *)
Definition hexval (c : N) : option N :=
  if (48 <=? c) && (c <=? 57) then Some (c - 48)
  else if (97 <=? c) && (c <=? 102) then Some (c - 87)
  else if (65 <=? c) && (c <=? 70) then Some (c - 55)
  else None.
Definition hex2 (a b : N) : option N :=
  match hexval a, hexval b with Some x, Some y => Some (16 * x + y) | _, _ => None end.

(* hex_to_rgb(h); None = ValueError *)
Definition hex_to_rgb (h : str) : option (N * N * N) :=
  match lstrip [35] h with
  | a :: b :: c :: d :: e :: f :: _ =>
      match hex2 a b, hex2 c d, hex2 e f with
      | Some r, Some g, Some bl => Some (r, g, bl)
      | _, _, _ => None
      end
  | _ => None
  end.

(* str(n) for n < 1000 *)
Definition dec (n : N) : str :=
  let d x := 48 + x in
  if n <? 10 then [d n]
  else if n <? 100 then [d (n / 10); d (n mod 10)]
  else [d (n / 100); d ((n / 10) mod 10); d (n mod 10)].

Definition ESC : N := 27.
Definition sgr (kind : str) (rgb : N * N * N) : str :=
  let '(r, g, b) := rgb in
  [ESC] ++ $"[" ++ kind ++ $";2;" ++ dec r ++ $";" ++ dec g ++ $";" ++ dec b ++ $"m".
Definition RESET : str := [ESC] ++ $"[0m".

Fixpoint assoc_gen {B} (k : str) (l : list (str * B)) : option B :=
  match l with [] => None | (a, v) :: r => if str_eqb a k then Some v else assoc_gen k r end.

Definition opt_truthy (o : option str) : bool := match o with Some (_ :: _) => true | _ => false end.

(* the prefix computed by style(); None = raises *)
Definition style_prefix (fg bg : option str) : option str :=
  let color := if opt_truthy fg then match fg with Some f => assoc_gen f SL_MOLOKAI | None => None end else None in
  match color with
  | Some [fgh; bgh] =>                          (* a tuple: ("#fg", "#bg") *)
      match hex_to_rgb fgh, hex_to_rgb bgh with
      | Some x, Some y => Some (sgr $"38" x ++ sgr $"48" y)
      | _, _ => None
      end
  | Some [h] =>
      match nonempty h, hex_to_rgb h with
      | false, _ => Some []
      | true, None => None
      | true, Some x =>
          let p := sgr $"38" x in
          if opt_truthy bg then
            match bg with
            | Some b =>
                match assoc_gen b SL_MOLOKAI with
                | Some [bh] =>
                    if nonempty bh then
                      match hex_to_rgb bh with Some y => Some (p ++ sgr $"48" y) | None => None end
                    else Some p
                | _ => Some p
                end
            | None => Some p
            end
          else Some p
      end
  | _ => Some []
  end.

(* style(text, fg, bg) *)
Definition style (text : str) (fg bg : option str) : option str :=
  if negb (opt_truthy fg) && negb (opt_truthy bg) then Some text
  else match style_prefix fg bg with
       | Some p => Some (p ++ text ++ RESET)
       | None => None
       end.

(* fg_c, bg_c = STYLES[elem]; style(text, fg_c, bg_c)     None = KeyError / ValueError *)
Definition styled (elem : string) (text : str) : option str :=
  match assoc_gen (s2l elem) SL_STYLES with
  | Some (fg, bg) => style text fg bg
  | None => None
  end.

(* hex_to_rgb(MOLOKAI[STYLES["mcp_connected"][0]]); None = KeyError / ValueError *)
Definition conn_rgb : option (N * N * N) :=
  match assoc_gen $"mcp_connected" SL_STYLES with
  | Some (Some f, _) => match assoc_gen f SL_MOLOKAI with Some [h] => hex_to_rgb h | _ => None end
  | _ => None
  end.

(* ================================================================= Part 4 *)
Definition CHICK : str := [128036; 32].                 (* "🐤 " *)
Definition BRANCH_GLYPH : str := [9095; 32].            (* "⎇ " *)
Definition DELTA : str := [916; 32; 43].                (* "Δ +" *)
Definition SEP : str := SL_SEP.
Definition QMARK : str := $"?".

Inductive changes := CNotRepo | CClean | CDirty (added removed : str).
Inductive wres := WOk | WNoDir | WNoOpen | WNoWrite | WNoRename.
(* what set_cache did to the file system *)
Inductive stored :=
| SNothing
| STmpLeft (tmp : str) (content : str)
| SStored (path tmp : str) (content : str).

(* can the text be encoded as UTF-8 (errors="strict"): no surrogate code points *)
Definition encodable (s : str) : bool := forallb (fun c => negb ((55296 <=? c) && (c <=? 57343))) s.
(* print(s): sys.stdout.errors is "strict" in an ordinary UTF-8 locale and "surrogateescape" (sesc) in the
   C / C.UTF-8 / POSIX locales, where U+DC80..U+DCFF go out as the bytes 80..FF *)
Definition encodable_out (sesc : bool) (s : str) : bool :=
  forallb (fun c => negb ((55296 <=? c) && (c <=? 57343)) || (sesc && (56448 <=? c) && (c <=? 56575))) s.

(* does open(v, "rb") designate an already open descriptor of the process (closed again on
   leaving the with block)?  bool is an int in Python. *)
Definition fd_of (v : json) : option N :=
  match v with
  | JBool true => Some 1
  | JNum false t => if str_eqb t $"1" then Some 1 else if str_eqb t $"2" then Some 2 else None
  | _ => None
  end.

(* which repairs of the statusline are in the code: all of them today; the legacy lemmas switch one off *)
Record fixes := {
  fx_guard : bool;      (* c6068c5  bin/dippy-statusline: try: main() except Exception: print("?") *)
  fx_tpstr : bool;      (* fe4fc32  get_context_from_transcript ignores a transcript_path that is not a str *)
  fx_oneline : bool     (* 16f7bd5  the built line is collapsed to one line; a cached text is served only if it is one line *)
}.
Definition current : fixes := {| fx_guard := true; fx_tpstr := true; fx_oneline := true |}.

(* s.splitlines(): breaks at SL_LINE_BREAKS, "\r\n" counts once, no empty last element *)
Definition is_break (c : N) : bool := mem_ch c SL_LINE_BREAKS.
Fixpoint splitlines_aux (s cur : str) (after_cr : bool) : list str :=
  match s with
  | [] => match cur with [] => [] | _ => [rev_append cur []] end        (* rev cur, in linear time *)
  | c :: r =>
      if after_cr && N.eqb c 10 then splitlines_aux r cur false
      else if is_break c then rev_append cur [] :: splitlines_aux r [] (N.eqb c 13)
      else splitlines_aux r (c :: cur) false
  end.
Definition splitlines (s : str) : list str := splitlines_aux s [] false.
(* " ".join(s.splitlines()) *)
Definition collapse (s : str) : str := join SL_COLLAPSE_SEP (splitlines s).
(* s.splitlines() == [s] *)
Definition single_line (s : str) : bool := match splitlines s with [x] => str_eqb x s | _ => false end.

Definition fd_is_stdout (o : option N) : bool := match o with Some n => N.eqb n 1 | None => false end.

Record built := { b_out : res str; b_fd : option N; b_refresh : bool }.

Record outcome := {
  exit_ok : bool;            (* exit status 0 *)
  out : str;                 (* everything written to stdout *)
  traceback : bool;          (* an exception escaped to the interpreter's top level *)
  served : bool;             (* the line came from the cache *)
  store : stored;
  refresh : bool             (* the MCP refresh pipeline was spawned (or its Popen raised) *)
}.

Section Main.
  Variable base : str.
  Variable pid : str.
  Variable sesc : bool.      (* sys.stdout.errors == "surrogateescape" *)
  Variable fx : fixes.
  (* interpreter: str(x) of a list / dict *)
  Variable o_repr : json -> str.
  (* data sources: the bodies of the try blocks *)
  Variable o_configured : res bool.                 (* is_dippy_configured *)
  Variable o_branch : str -> res (bool * str).      (* git branch --show-current: (rc == 0, stdout.strip()) *)
  Variable o_changes : str -> res changes.          (* git diff --shortstat HEAD, parsed *)
  Variable o_transcript : json -> option str.       (* get_context_from_transcript(p), p truthy: total *)
  Variable o_pct : str -> json -> res str.          (* str(max(0, 80 - used * 100 // size)) *)
  Variable o_mcp_local : list str.                  (* get_local_mcp_servers(): total *)
  Variable o_mcp_cache : res (Z * str).             (* (age in ns, open(MCP_CACHE_PATH).read().strip()) *)
  (* the session cache *)
  Variable o_age : str -> res Z.                    (* time.time() - os.path.getmtime(path), ns *)
  Variable o_read : str -> res str.                 (* open(path).read() *)
  Variable o_fs : str -> str -> wres.               (* makedirs; open(tmp,"w"); write; close; rename(tmp, path) *)

  Definition ns (seconds : N) : Z := (Z.of_N seconds * 1000000000)%Z.
  Definition older (strict : bool) (age : Z) (ttl : N) : bool :=
    if strict then Z.gtb age (ns ttl) else Z.geb age (ns ttl).

  (* f"{v}" *)
  Definition py_str (v : json) : str :=
    match v with
    | JNull => $"None"
    | JBool true => $"True"
    | JBool false => $"False"
    | JNum _ t => t
    | JStr s => s
    | _ => o_repr v
    end.

  (* ---- get_cached *)
  Definition get_cached (sid : json) : option str :=
    match get_cache_path base sid with
    | None => None                                              (* except Exception *)
    | Some p =>
        match o_age p with
        | Raise => None                                         (* FileNotFoundError / Exception *)
        | Ok age =>
            if older SL_CACHE_EXPIRE_STRICT age SL_CACHE_TTL then None
            else match o_read p with Raise => None | Ok s => Some s end
        end
    end.

  (* ---- set_cache *)
  Definition set_cache (sid : json) (output : str) : stored :=
    match get_cache_path base sid with
    | None => SNothing                                          (* makedirs may have run; no file *)
    | Some p =>
        let tmp := tmp_of pid p in
        match o_fs tmp p with
        | WNoDir | WNoOpen => SNothing
        | WNoWrite => STmpLeft tmp []
        | WNoRename => if encodable output then STmpLeft tmp output else STmpLeft tmp []
        | WOk => if encodable output then SStored p tmp output else STmpLeft tmp []
        end
    end.

  (* ---- the fields read by build_statusline *)
  (* data.get("model", {}).get("display_name") or "?"     in try/except *)
  Definition field_model (data : json) : json :=
    match jget data $"model" (JObj []) with
    | Raise => JStr QMARK
    | Ok m =>
        match jget m $"display_name" JNull with
        | Raise => JStr QMARK
        | Ok v => if truthy v then v else JStr QMARK
        end
    end.
  (* data.get("workspace", {}).get("current_dir") or ""   in try/except *)
  Definition field_cwd (data : json) : json :=
    match jget data $"workspace" (JObj []) with
    | Raise => JStr []
    | Ok w =>
        match jget w $"current_dir" JNull with
        | Raise => JStr []
        | Ok v => if truthy v then v else JStr []
        end
    end.
  (* os.path.basename(cwd) if cwd else "" needs a str: None = TypeError *)
  Definition cwd_str (v : json) : option str := match v with JStr s => Some s | _ => None end.

  (* ---- data-source functions (the except clauses are here) *)
  Definition is_dippy_configured : bool := match o_configured with Ok b => b | Raise => false end.

  Definition get_git_branch (cwd : str) : option str :=
    if nonempty cwd then
      match o_branch cwd with
      | Raise => None
      | Ok (false, _) => None
      | Ok (true, b) =>
          if nonempty b then styled "branch" (BRANCH_GLYPH ++ b)
          else styled "branch_detached" (BRANCH_GLYPH ++ $"[detached head]")
      end
    else None.

  Definition get_git_changes (cwd : str) : option str :=
    if nonempty cwd then
      match o_changes cwd with
      | Raise | Ok CNotRepo => None
      | Ok CClean => styled "changes_clean" $"clean"
      | Ok (CDirty a r) => styled "changes_dirty" (DELTA ++ a ++ $",-" ++ r)
      end
    else None.

  (* get_context_remaining: (piece, descriptor closed by open(transcript_path, "rb")) *)
  Definition get_context_remaining (data : json) : option str * option N :=
    match jget data $"context_window" (JObj []) with
    | Raise => (None, None)
    | Ok ctx =>
        match jget ctx $"context_window_size" (JNum true $"0") with
        | Raise => (None, None)
        | Ok size =>
            if negb (truthy size) then (None, None)
            else
              match jget data $"transcript_path" (JStr []) with
              | Raise => (None, None)
              | Ok tp =>
                  (* get_context_from_transcript(tp): `if not tp [or not isinstance(tp, str)]: return None` *)
                  let reads := if fx_tpstr fx then match tp with JStr (_ :: _) => true | _ => false end else truthy tp in
                  let used := if reads then o_transcript tp else None in
                  let fd := if reads then fd_of tp else None in
                  match used with
                  | None => (styled "context" $"ctx: 80% left", fd)
                  | Some u =>
                      match o_pct u size with
                      | Raise => (None, fd)
                      | Ok t => (styled "context" ($"ctx: " ++ t ++ $"% left"), fd)
                      end
                  end
              end
        end
    end.

  (* get_mcp_servers: None in the first component = an exception escapes (palette lookup) *)
  Definition get_mcp_servers : option (option str) * bool :=
    match conn_rgb with
    | None => (None, false)
    | Some conn =>
        let local_styled := map (fun name => sgr $"38" conn ++ name ++ RESET) o_mcp_local in
        let '(age, cached) := match o_mcp_cache with
                              | Ok (a, c) => (a, c)
                              | Raise => (ns (SL_MCP_CACHE_TTL + 1), [])
                              end in
        let refresh := older SL_MCP_REFRESH_STRICT age SL_MCP_CACHE_TTL in
        let all := local_styled ++ (if nonempty cached then [cached] else []) in
        match all with
        | [] => (Some None, refresh)
        | _ =>
            match styled "mcp_title" $"MCP:" with
            | None => (None, refresh)
            | Some title => (Some (Some (title ++ $" " ++ join $", " all)), refresh)
            end
        end
    end.

  (* ---- build_statusline *)
  Definition raised : built := {| b_out := Raise; b_fd := None; b_refresh := false |}.
  Definition opt_list (o : option str) : list str := match o with Some s => if nonempty s then [s] else [] | None => [] end.

  (* build_statusline up to " | ".join(parts) *)
  Definition build_raw (data : json) : built :=
    match styled "model" (py_str (field_model data)) with
    | None => raised
    | Some m0 =>
        let m1 := if is_dippy_configured then CHICK ++ m0 else m0 in
        match cwd_str (field_cwd data) with
        | None => raised                                        (* os.path.basename(<non-str>) *)
        | Some cwd =>
            let disp := if nonempty cwd then basename cwd else [] in
            match (if nonempty disp then styled "directory" disp else Some []) with
            | None => raised
            | Some disp_s =>
                let parts0 := if nonempty disp_s then [m1; disp_s] else [m1] in
                let br := get_git_branch cwd in
                let ch := get_git_changes cwd in
                let '(cx, fd) := get_context_remaining data in
                match get_mcp_servers with
                | (None, rf) => {| b_out := Raise; b_fd := fd; b_refresh := rf |}
                | (Some mcp, rf) =>
                    {| b_out := Ok (join SEP (parts0 ++ opt_list br ++ opt_list ch ++ opt_list cx ++ opt_list mcp));
                       b_fd := fd; b_refresh := rf |}
                end
            end
        end
    end.

  (* return " ".join(" | ".join(parts).splitlines()) *)
  Definition build_statusline (data : json) : built :=
    let b := build_raw data in
    if fx_oneline fx then
      {| b_out := match b_out b with Ok l => Ok (collapse l) | Raise => Raise end; b_fd := b_fd b; b_refresh := b_refresh b |}
    else b.

  (* ---- main and the guard of bin/dippy-statusline *)
  (* after the first try block [data] is always a dict *)
  Definition data_of (inp : option json) : json :=
    match inp with Some (JObj kv) => JObj kv | _ => JObj [] end.
  Definition session_of (data : json) : json :=
    match jget data $"session_id" (JStr []) with Ok v => v | Raise => JStr [] end.

  (* the input makes get_context_from_transcript open - and close - file descriptor 1 *)
  Definition stdout_hazard (inp : option json) : bool :=
    match jget (data_of inp) $"transcript_path" (JStr []) with
    | Ok tp => fd_is_stdout (fd_of tp)
    | Raise => false
    end.

  Definition NL : str := [10].

  (* print(line), then the guard's print("?") if that raised *)
  Definition emit (line : str) (is_cached : bool) (st : stored) (rf : bool) : outcome :=
    if encodable_out sesc line then
      {| exit_ok := true; out := line ++ NL; traceback := false; served := is_cached; store := st; refresh := rf |}
    else if fx_guard fx then
      {| exit_ok := true; out := QMARK ++ NL; traceback := false; served := false; store := st; refresh := rf |}
    else
      {| exit_ok := false; out := []; traceback := true; served := false; store := st; refresh := rf |}.

  (* descriptor 1 was closed under sys.stdout: the line is lost.  The exit status then depends on which later
     open() re-occupies descriptor 1 (120, 1 and 0 are observed); exit_ok = false stands for "not exit 0 with
     the line on stdout" and is not compared with the real status. *)
  Definition broken (st : stored) (rf : bool) : outcome :=
    {| exit_ok := false; out := []; traceback := false; served := false; store := st; refresh := rf |}.

  (* `if cached [and cached.splitlines() == [cached]]` *)
  Definition servable (c : str) : bool := if fx_oneline fx then single_line c else nonempty c.

  Definition sl_main (inp : option json) : outcome :=
    let data := data_of inp in
    let sid := session_of data in
    match match get_cached sid with Some c => if servable c then Some c else None | None => None end with
    | Some c => emit c true SNothing false
    | None =>
        let b := build_statusline data in
        match b_out b with
        | Raise =>
            if fd_is_stdout (b_fd b) then broken SNothing (b_refresh b)
            else if fx_guard fx then
              {| exit_ok := true; out := QMARK ++ NL; traceback := false; served := false;
                 store := SNothing; refresh := b_refresh b |}
            else
              {| exit_ok := false; out := []; traceback := true; served := false;
                 store := SNothing; refresh := b_refresh b |}
        | Ok line =>
            let st := set_cache sid line in
            if fd_is_stdout (b_fd b) then broken st (b_refresh b)     (* stdout was closed under sys.stdout *)
            else emit line false st (b_refresh b)
        end
    end.
End Main.

(* ================================================================= Part 5 *)
(* open(path).read() of what open(path,"w").write(s) stored: "\r\n" and "\r" become "\n" *)
Fixpoint univ_nl (s : str) : str :=
  match s with
  | 13 :: r => 10 :: match r with 10 :: r' => univ_nl r' | _ => univ_nl r end
  | c :: r => c :: univ_nl r
  | [] => []
  end.

(* one invocation: its input and the answers of its data sources *)
Record invocation := {
  i_pid : str;
  i_sesc : bool;
  i_inp : option json;
  i_repr : json -> str;
  i_configured : res bool;
  i_branch : str -> res (bool * str);
  i_changes : str -> res changes;
  i_transcript : json -> option str;
  i_pct : str -> json -> res str;
  i_mcp_local : list str;
  i_mcp_cache : res (Z * str);
  i_age : Z;                      (* age of whatever entry is found *)
  i_fs : wres                     (* behaviour of the file system during set_cache *)
}.

Definition files := str -> option str.       (* path -> what was written there *)
Definition fupd (f : files) (p : str) (v : str) : files := fun q => if str_eqb q p then Some v else f q.

Definition invoke (fx : fixes) (base : str) (f : files) (i : invocation) : files * outcome :=
  let o := sl_main base (i_pid i) (i_sesc i) fx (i_repr i) (i_configured i) (i_branch i) (i_changes i) (i_transcript i) (i_pct i)
               (i_mcp_local i) (i_mcp_cache i)
               (fun p => match f p with Some _ => Ok (i_age i) | None => Raise end)
               (fun p => match f p with Some s => Ok (univ_nl s) | None => Raise end)
               (fun _ _ => i_fs i) (i_inp i) in
  let f' := match store o with
            | SNothing => f
            | STmpLeft t c => fupd f t c
            | SStored p t c => fupd f p c
            end in
  (f', o).

Fixpoint history (fx : fixes) (base : str) (f : files) (l : list invocation) : list outcome :=
  match l with
  | [] => []
  | i :: r => let (f', o) := invoke fx base f i in o :: history fx base f' r
  end.

(* ================================================================= Part 6 *)
Definition content := str.
Local Open Scope nat_scope.
Inductive fname := Final | Tmp (p : nat).
Definition fname_eqb (a b : fname) : bool :=
  match a, b with Final, Final => true | Tmp p, Tmp q => Nat.eqb p q | _, _ => false end.

Inductive wpc := WIdle | WOpen (i : nat) (off : nat) | WClosed | WDone | WDead.
Inductive rpc := RIdle | ROpen (i : nat) (got : content) | RDone (got : content) | RMiss | RDead.

Record st := {
  ino : nat -> content;            (* inode contents *)
  nxt : nat;                       (* inodes below nxt are allocated *)
  dir : fname -> option nat;       (* directory: name -> inode *)
  wr : nat -> wpc;                 (* writer processes, by pid *)
  want : nat -> content;           (* the complete line writer p caches *)
  rd : nat -> rpc;                 (* reader processes *)
  produced : list content          (* ghost: initial content and every line of every invocation *)
}.

Definition upd {A} (f : nat -> A) (p : nat) (v : A) : nat -> A := fun q => if Nat.eqb q p then v else f q.
Definition dupd (d : fname -> option nat) (n : fname) (v : option nat) : fname -> option nat :=
  fun m => if fname_eqb m n then v else d m.

(* write(fd, chunk) at offset off into a file holding c: holes are NUL *)
Definition pwrite (c : content) (off : nat) (chunk : content) : content :=
  firstn off (c ++ repeat 0%N (off - length c)) ++ chunk ++ skipn (off + length chunk) c.

Inductive ev :=
| ESpawn (p : nat) (c : content)     (* an invocation with pid p that will cache line c *)
| EOpenW (p : nat)                   (* open(tmp.p, O_WRONLY|O_CREAT|O_TRUNC) *)
| EWrite (p : nat) (k : nat)         (* write(fd, next k characters) *)
| ECloseW (p : nat)                  (* close(fd), after everything was written *)
| ERename (p : nat)                  (* rename(tmp.p, path) *)
| EKillW (p : nat)                   (* SIGKILL (or any error that abandons the protocol) *)
| EOpenR (r : nat)                   (* open(path) *)
| ERead (r : nat) (k : nat)          (* read(fd, k) *)
| ECloseR (r : nat)                  (* EOF seen, close *)
| EKillR (r : nat).

Definition set_ino s f := {| ino := f; nxt := nxt s; dir := dir s; wr := wr s; want := want s; rd := rd s; produced := produced s |}.
Definition set_wr s f := {| ino := ino s; nxt := nxt s; dir := dir s; wr := f; want := want s; rd := rd s; produced := produced s |}.
Definition set_rd s f := {| ino := ino s; nxt := nxt s; dir := dir s; wr := wr s; want := want s; rd := f; produced := produced s |}.

(* which name a writer opens and writes: the protocol of set_cache uses Tmp p and renames *)
Inductive variant := Protocol | InPlace | SharedTmp.
Definition wname (v : variant) (p : nat) : fname :=
  match v with Protocol => Tmp p | InPlace => Final | SharedTmp => Tmp 0 end.

Definition step (v : variant) (s : st) (e : ev) : option st :=
  match e with
  | ESpawn p c =>
      match wr s p with
      | WDone | WDead =>
          Some {| ino := ino s; nxt := nxt s; dir := dir s; wr := upd (wr s) p WIdle; want := upd (want s) p c;
                  rd := rd s; produced := c :: produced s |}
      | _ => None
      end
  | EOpenW p =>
      match wr s p with
      | WIdle =>
          match dir s (wname v p) with
          | Some i =>     (* O_TRUNC on the existing inode *)
              Some {| ino := upd (ino s) i []; nxt := nxt s; dir := dir s; wr := upd (wr s) p (WOpen i 0);
                      want := want s; rd := rd s; produced := produced s |}
          | None =>       (* O_CREAT *)
              Some {| ino := upd (ino s) (nxt s) []; nxt := S (nxt s); dir := dupd (dir s) (wname v p) (Some (nxt s));
                      wr := upd (wr s) p (WOpen (nxt s) 0); want := want s; rd := rd s; produced := produced s |}
          end
      | _ => None
      end
  | EWrite p k =>
      match wr s p with
      | WOpen i off =>
          let chunk := firstn k (skipn off (want s p)) in
          Some (set_wr (set_ino s (upd (ino s) i (pwrite (ino s i) off chunk))) (upd (wr s) p (WOpen i (off + length chunk))))
      | _ => None
      end
  | ECloseW p =>
      match wr s p with
      | WOpen i off => if Nat.leb (length (want s p)) off then Some (set_wr s (upd (wr s) p WClosed)) else None
      | _ => None
      end
  | ERename p =>
      match wr s p with
      | WClosed =>
          match v with
          | InPlace => Some (set_wr s (upd (wr s) p WDone))          (* nothing to rename *)
          | _ =>
              match dir s (wname v p) with
              | Some i =>
                  Some {| ino := ino s; nxt := nxt s; dir := dupd (dupd (dir s) Final (Some i)) (wname v p) None;
                          wr := upd (wr s) p WDone; want := want s; rd := rd s; produced := produced s |}
              | None => None       (* ENOENT: only possible in the SharedTmp variant *)
              end
          end
      | _ => None
      end
  | EKillW p => Some (set_wr s (upd (wr s) p WDead))
  | EOpenR r =>
      match dir s Final with
      | Some i => Some (set_rd s (upd (rd s) r (ROpen i [])))
      | None => Some (set_rd s (upd (rd s) r RMiss))
      end
  | ERead r k =>
      match rd s r with
      | ROpen i got => Some (set_rd s (upd (rd s) r (ROpen i (got ++ firstn k (skipn (length got) (ino s i))))))
      | _ => None
      end
  | ECloseR r =>
      match rd s r with
      | ROpen i got => if Nat.leb (length (ino s i)) (length got) then Some (set_rd s (upd (rd s) r (RDone got))) else None
      | _ => None
      end
  | EKillR r => Some (set_rd s (upd (rd s) r RDead))
  end.

Fixpoint exec (v : variant) (s : st) (l : list ev) : option st :=
  match l with
  | [] => Some s
  | e :: r => match step v s e with Some s' => exec v s' r | None => None end
  end.

(* initial state: no process; the cache entry absent or holding c0 (whatever it is) *)
Definition init (c0 : option content) : st :=
  match c0 with
  | None => {| ino := fun _ => []; nxt := 0; dir := fun _ => None; wr := fun _ => WDone; want := fun _ => [];
               rd := fun _ => RIdle; produced := [] |}
  | Some c => {| ino := fun _ => c; nxt := 1; dir := fun n => match n with Final => Some 0 | _ => None end;
                 wr := fun _ => WDone; want := fun _ => []; rd := fun _ => RIdle; produced := [c] |}
  end.
