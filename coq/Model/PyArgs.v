(* Model of src/dippy/cli/python.py (property C17).

   Part (b)  SafetyAnalyzer (an ast.NodeVisitor) over the generic rose tree: the harness dumps
             Python's ast reflectively (class name = kind, str fields = strs, node and
             list-of-node fields = labelled kids in _fields order).  [visit] is
             SafetyAnalyzer.visit; every visit_X method of the class does some checks of its own
             ([local]) and then calls generic_visit ([descends]) - except visit_Global (pass) and the
             early return of visit_ImportFrom for `from . import x`.  The visitor's one piece of state
             that matters, _called_names (Name nodes that are the func of a Call), is the [callee]
             argument: a Call is visited before its func.  [source_viols] is analyze_python_source
             after ast.parse: the visitor plus the sibling-module check over imported_roots.
   Part (a)  the command line: _scan_options, classify (analyze_python_file, Path.resolve and the
             calendar shadow test are oracles), and [py_cmdline], a specification of CPython 3.12's
             own argv grammar (Python/getopt.c + config_parse_cmdline) that the harness validates
             against the real interpreter.
   Verdicts / violation kinds only: descriptions and reason texts are not modelled. *)
From DippyV Require Import Base.Str Base.Sx Base.Tree Gen.Tables.

(* ------------------------------------------------------------------ part (b): the visitor *)

Inductive vk :=
| KImportDangerous | KImportUnknown | KImportRelative   (* kind "import"     *)
| KImportName | KShadow                                 (* kind "import": from m import <module-like name>; sibling file *)
| KBuiltin                                              (* kind "builtin"    *)
| KMethod                                               (* kind "method"     *)
| KReflAttr | KEscapeAttr | KReflName                   (* kind "reflection" *)
| KAsyncDef | KAwait                                    (* kind "async"      *)
| KWithOpen                                             (* kind "io"         *)
| KRaise.                                               (* IndexError in visit_Call: name[0] of an empty identifier *)
Definition viol := (vk * str)%type.

(* module.split(".")[0] *)
Fixpoint root_of (m : str) : str :=
  match m with
  | [] => []
  | c :: r => if N.eqb c 46 then [] else c :: root_of r
  end.

(* the if/elif of visit_Import / visit_ImportFrom *)
Definition mod_dangerous (m : str) : bool :=
  mem_str m PY_DANGEROUS_MODULES || mem_str (root_of m) PY_DANGEROUS_MODULES.
Definition mod_known (m : str) : bool :=
  mem_str m PY_SAFE_MODULES || mem_str (root_of m) PY_SAFE_MODULES.
Definition mod_viols (m : str) : list viol :=
  if mod_dangerous m then [(KImportDangerous, m)]
  else if negb (mod_known m) then [(KImportUnknown, m)]
  else [].

(* alias.name.lstrip("_") in DANGEROUS_MODULES or alias.name in ESCAPE_ATTRS; same test for node.attr *)
Definition module_like (n : str) : bool :=
  mem_str n PY_ESCAPE_ATTRS || mem_str (lstrip [95] n) PY_DANGEROUS_MODULES.

Definition is_empty (s : str) : bool := match s with [] => true | _ => false end.

(* visit_Call, before generic_visit *)
Definition call_viols (allow_print : bool) (t : tree) : list viol :=
  match child "func" t with
  | None => []
  | Some f =>
      if is_kind "Name" f then
        let n := attr_d "id" f in
        if mem_str n PY_DANGEROUS_BUILTINS then
          if str_eqb n $"print" && allow_print then [] else [(KBuiltin, n)]
        else if negb (mem_str n PY_SAFE_BUILTINS) && is_empty n then [(KRaise, [])]   (* name[0] *)
        else []
      else if is_kind "Attribute" f then
        let a := attr_d "attr" f in
        if mem_str a PY_DANGEROUS_ATTRS then [(KMethod, a)] else []
      else []
  end.

(* visit_With: one "io" violation per item whose context_expr is a call of the bare name open *)
Definition with_item_viols (item : tree) : list viol :=
  match child "context_expr" item with
  | Some c =>
      if is_kind "Call" c then
        match child "func" c with
        | Some f => if is_kind "Name" f && str_eqb (attr_d "id" f) $"open" then [(KWithOpen, [])] else []
        | None => []
        end
      else []
  | None => []
  end.

(* NodeVisitor.visit dispatches on the class name: the classes SafetyAnalyzer treats specially
   (visit_Starred, visit_FunctionDef, visit_Try only call generic_visit: COther) *)
Inductive kcl := CImport | CImportFrom | CCall | CAttribute | CName | CAsyncDef | CAwait | CWith | CGlobal | COther.
Definition klass (k : str) : kcl :=
  if str_eqb k $"Import" then CImport
  else if str_eqb k $"ImportFrom" then CImportFrom
  else if str_eqb k $"Call" then CCall
  else if str_eqb k $"Attribute" then CAttribute
  else if str_eqb k $"Name" then CName
  else if str_eqb k $"AsyncFunctionDef" then CAsyncDef
  else if str_eqb k $"Await" then CAwait
  else if str_eqb k $"With" then CWith
  else if str_eqb k $"Global" then CGlobal
  else COther.

(* isinstance(node.ctx, ast.Load) *)
Definition is_load (t : tree) : bool :=
  match child "ctx" t with Some c => is_kind "Load" c | None => false end.

(* what the visit_<kind> method of this node reports itself; callee: id(node) in self._called_names,
   i.e. this node is the func of the Call above it and is a Name *)
Definition local (allow_print : bool) (callee : bool) (t : tree) : list viol :=
  match klass (kind_of t) with
  | CImport => flat_map (fun a => mod_viols (attr_d "name" a)) (children "names" t)
  | CImportFrom =>
      match attr "module" t with
      | None => [(KImportRelative, [])]
      | Some m =>
          mod_viols m ++
          flat_map (fun a => if module_like (attr_d "name" a) then [(KImportName, attr_d "name" a)] else [])
                   (children "names" t)
      end
  | CCall => call_viols allow_print t
  | CAttribute =>
      if mem_str (attr_d "attr" t) PY_REFLECTION_ATTRS then [(KReflAttr, attr_d "attr" t)]
      else if module_like (attr_d "attr" t) then [(KEscapeAttr, attr_d "attr" t)]
      else []
  | CName =>
      let n := attr_d "id" t in
      if mem_str n PY_DANGEROUS_NAMES then [(KReflName, n)]
      else if is_load t && negb callee && mem_str n PY_DANGEROUS_BUILTINS
              && negb (str_eqb n $"print" && allow_print) then [(KBuiltin, n)]
      else []
  | CAsyncDef => [(KAsyncDef, [])]
  | CAwait => [(KAwait, [])]
  | CWith => flat_map with_item_viols (children "items" t)
  | CGlobal | COther => []
  end.

(* does the method go on to generic_visit(node)?  visit_Global is `pass`; visit_ImportFrom returns
   early for `from . import x` *)
Definition descends (t : tree) : bool :=
  match klass (kind_of t) with
  | CImportFrom => match attr "module" t with None => false | Some _ => true end
  | CGlobal => false
  | _ => true
  end.

(* visit_Call marks node.func when it is a Name, then generic_visit reaches it *)
Definition marks (parent_kind : str) (label : str) (c : tree) : bool :=
  match klass parent_kind with
  | CCall => str_eqb label $"func" && is_kind "Name" c
  | _ => false
  end.

(* SafetyAnalyzer.visit(node); analyzer.violations in order *)
Fixpoint visit (allow_print : bool) (callee : bool) (t : tree) : list viol :=
  match t with
  | T k ss fs ks =>
      local allow_print callee (T k ss fs ks) ++
      (if descends (T k ss fs ks)
       then flat_map (fun p => visit allow_print (marks k (fst p) (snd p)) (snd p)) ks
       else [])
  end.

(* analyzer.imported_roots, over the nodes the visitor reaches *)
Definition node_roots (t : tree) : list str :=
  match klass (kind_of t) with
  | CImport => map (fun a => root_of (attr_d "name" a)) (children "names" t)
  | CImportFrom => match attr "module" t with None => [] | Some m => [root_of m] end
  | _ => []
  end.
Fixpoint roots (t : tree) : list str :=
  match t with
  | T k ss fs ks =>
      node_roots (T k ss fs ks) ++
      (if descends (T k ss fs ks) then flat_map (fun p => roots (snd p)) ks else [])
  end.

(* sorted(set(...)) on strings: code-point order *)
Fixpoint str_ltb (a b : str) : bool :=
  match a, b with
  | _, [] => false
  | [], _ :: _ => true
  | x :: a', y :: b' => if N.ltb x y then true else if N.ltb y x then false else str_ltb a' b'
  end.
Fixpoint insert_sorted (x : str) (l : list str) : list str :=
  match l with
  | [] => [x]
  | y :: r => if str_eqb x y then l else if str_ltb x y then x :: l else y :: insert_sorted x r
  end.
Definition sorted_set (l : list str) : list str := fold_right insert_sorted [] l.

(* analyze_python_source(source, allow_print, base) after a successful ast.parse;
   sibling r: (base / f"{r}.py").exists() or (base / r).is_dir();
   local: local_shadow(base) is not None (repair 7bd370f: some entry of base is importable and named like
   a standard-library or safe-listed module) *)
Definition source_viols (sibling : str -> bool) (local : bool) (allow_print : bool) (t : tree) : list viol :=
  visit allow_print false t ++
  flat_map (fun r => if sibling r then [(KShadow, r)] else []) (sorted_set (roots t)) ++
  (if local then [(KShadow, [])] else []).

(* the kinds the model dispatches on are exactly the visit_ methods of the class (tie, see Proofs) *)
Definition visit_kinds : list str :=
  [$"AsyncFunctionDef"; $"Attribute"; $"Await"; $"Call"; $"FunctionDef"; $"Global"; $"Import";
   $"ImportFrom"; $"Name"; $"Starred"; $"Try"; $"With"].

(* ------------------------------------------------------------------ part (a): the command line *)

Definition is_dash (t : str) : bool := prefixb [45] t.          (* token.startswith("-") *)
Definition dash : str := [45].

(* ---- _scan_options ---- *)
Inductive scl :=
| SNext (takes_next : bool)              (* cluster read; -W / -X took the next token as argument *)
| SProg (c : N) (attached : option str). (* -c / -m: the program; its argument attached or the next token *)

Definition opt_name (c : N) : str := [45; c].                       (* "-" + opt *)
Definition with_arg (c : N) : bool := mem_str [c] PY_SHORT_WITH_ARG.  (* opt in _SHORT_WITH_ARG *)
Definition is_cm (c : N) : bool := N.eqb c 99 || N.eqb c 109.         (* opt in "cm" *)

(* the inner while loop over token[1:]: options seen, and how the token ends *)
Fixpoint scan_cluster (cs : str) : list str * scl :=
  match cs with
  | [] => ([], SNext false)
  | c :: r =>
      if with_arg c then
        if is_cm c then ([opt_name c], SProg c (match r with [] => None | _ => Some r end))
        else ([opt_name c], SNext (is_empty r))
      else let (ss, e) := scan_cluster r in (opt_name c :: ss, e)
  end.

Record scanres := mkscan { sc_seen : list str; sc_idx : nat; sc_mode : option N; sc_arg : option str }.
Definition add_seen (ss : list str) (r : scanres) : scanres :=
  mkscan (ss ++ sc_seen r) (sc_idx r) (sc_mode r) (sc_arg r).

(* the outer loop; l = tokens[i:] *)
Fixpoint scan (i : nat) (l : list str) : scanres :=
  match l with
  | [] => mkscan [] i None None
  | t :: r =>
      if negb (is_dash t) || str_eqb t dash then mkscan [] i None None
      else if str_eqb t $"--" then mkscan [] (S i) None None
      else if prefixb $"--" t then
        add_seen [t]
          (if str_eqb t $"--check-hash-based-pycs"
           then match r with [] => mkscan [] (S (S i)) None None | _ :: r' => scan (S (S i)) r' end
           else scan (S i) r)
      else
        match scan_cluster (tl t) with
        | (ss, SNext false) => add_seen ss (scan (S i) r)
        | (ss, SNext true) =>
            add_seen ss (match r with [] => mkscan [] (S (S i)) None None | _ :: r' => scan (S (S i)) r' end)
        | (ss, SProg c (Some a)) => mkscan ss i (Some c) (Some a)
        | (ss, SProg c None) => mkscan ss (S i) (Some c) (hd_error r)
        end
  end.

(* Path(token).is_absolute() on POSIX; cwd / Path(token) for a normalised cwd *)
Definition is_abs (s : str) : bool := prefixb [47] s.
Definition pjoin (cwd tok : str) : str :=
  if is_abs tok then tok
  else if suffixb [47] cwd then cwd ++ tok else cwd ++ [47] ++ tok.

Inductive pyres := PAllow | PAsk | PExn.

(* ---- _writes_files_xoption(tokens, end) (repair 6fb4634): l = tokens[1:], n = end - 1 words are looked at;
   token.split("X", 1)[1] or the next word *)
Fixpoint after_X (t : str) : option str :=
  match t with
  | [] => None
  | c :: r => if N.eqb c 88 then Some r else after_X r
  end.
Definition xvalue_writes (v : str) : bool := prefixb $"pycache_prefix" v || prefixb $"perf" v.
Fixpoint wfx (n : nat) (l : list str) : bool :=
  match n, l with
  | S n', t :: r =>
      (if is_dash t && negb (prefixb $"--" t) then
         match after_X t with
         | Some v => xvalue_writes (if is_empty v then hd [] r else v)
         | None => false
         end
       else false) || wfx n' r
  | _, _ => false
  end.

(* repair 1872043: tokens[idx].startswith("~") or any(c in tokens[idx] for c in "$`{*?[") *)
Definition rewritten_chars : list N := [36; 96; 123; 42; 63; 91].
Definition shell_rewrites (tok : str) : bool :=
  prefixb [126] tok || existsb (fun c => mem_ch c tok) rewritten_chars.

Section Classify.
  Variable resolve : str -> option str.   (* str(Path(p).resolve()); None: raises (embedded NUL) *)
  Variable analyze : str -> bool.         (* analyze_python_file(Path(p))[0] *)

  Variable shadow : str -> bool.          (* (cwd / "calendar.py").exists() or (cwd / "calendar").is_dir() or local_shadow(cwd) is not None *)

  (* classify(ctx).action; ctx_cwd = ctx.cwd, proc_cwd = Path.cwd() *)
  Definition classify (ctx_cwd : option str) (proc_cwd : str) (tokens : list str) : pyres :=
    match tokens with
    | [] => PExn                                   (* get_description: tokens[0] *)
    | [_] => PAsk
    | _ :: rest =>
        let cwd := match ctx_cwd with Some c => c | None => proc_cwd end in
        let r := scan 1 rest in
        let seen := sc_seen r in
        if negb (forallb (fun o => mem_str o PY_KNOWN_OPTIONS) seen) then PAsk
        else if existsb (fun o => mem_str o PY_INFO_OPTIONS) seen then PAllow
        else if mem_str $"-X" seen && wfx (sc_idx r - 1) rest then PAsk
        else if match sc_mode r with Some c => N.eqb c 99 | None => false end then PAsk
        else if mem_str $"-i" seen || mem_str $"-x" seen then PAsk
        else if match sc_mode r with Some c => N.eqb c 109 | None => false end then
          match sc_arg r with
          | Some m => if str_eqb m $"calendar" && negb (shadow cwd) then PAllow else PAsk
          | None => PAsk
          end
        else
          match nth_error tokens (sc_idx r) with
          | None => PAsk
          | Some tok =>
              if str_eqb tok dash then PAsk
              else if shell_rewrites tok then PAsk
              else match resolve (pjoin cwd tok) with
                   | None => PExn
                   | Some p => if analyze p then PAllow else PAsk
                   end
          end
    end.
End Classify.

(* ---- specification: what CPython 3.12 does with the same argv (Python/getopt.c, initconfig.c) *)

Record pyflags := mkfl { fl_version : bool; fl_inspect : bool; fl_skip1 : bool }.
Definition fl0 := mkfl false false false.

Inductive pyrun :=
| RUsageError                          (* message + exit 2; nothing runs *)
| RInfo                                (* help or version text, exit 0; nothing runs *)
| RCommand (i : nat) (code : str) (fl : pyflags)   (* -c: the text [code], from tokens[i], is executed *)
| RModule (i : nat) (m : str) (fl : pyflags)       (* -m: module m (from tokens[i]) is found on sys.path and run *)
| RFile (i : nat) (fl : pyflags)       (* tokens[i] is the script file *)
| RStdin (fl : pyflags).               (* the program is read from standard input / the REPL *)

(* one option token, after its leading '-' *)
Inductive cl :=
| CErr | CInfo
| CEnd                                  (* "expected long option": option parsing stops, no error *)
| CCmd (fl : pyflags) (code : option str)   (* None: the code is the next token *)
| CMod (fl : pyflags) (m : option str)
| CNext (fl : pyflags) (takes_next : bool).

(* options that only set a configuration bit *)
Definition plain_short : list N := s2l "bBdEIOPqRsStuv".
Definition hash_modes : list str := [$"always"; $"never"; $"default"].
Definition help_longs : list str := [$"help-all"; $"help-env"; $"help-xoptions"].

Fixpoint cluster (fl : pyflags) (cs : str) (next : option str) : cl :=
  match cs with
  | [] => CNext fl false
  | c :: r =>
      if N.eqb c 45 then                                  (* long option named r *)
        if is_empty r then CEnd
        else if str_eqb r $"check-hash-based-pycs" then
          match next with
          | Some a => if mem_str a hash_modes then CNext fl true else CErr
          | None => CErr
          end
        else if mem_str r help_longs then CInfo
        else CErr
      else if N.eqb c 99 then                             (* c *)
        match r with
        | [] => match next with Some _ => CCmd fl None | None => CErr end
        | _ => CCmd fl (Some r)
        end
      else if N.eqb c 109 then                            (* m *)
        match r with
        | [] => match next with Some _ => CMod fl None | None => CErr end
        | _ => CMod fl (Some r)
        end
      else if N.eqb c 87 || N.eqb c 88 then               (* W X *)
        match r with
        | [] => match next with Some _ => CNext fl true | None => CErr end
        | _ => CNext fl false
        end
      else if N.eqb c 104 || N.eqb c 63 then CInfo        (* h ? : usage, exit 0, at once *)
      else if N.eqb c 86 then cluster (mkfl true (fl_inspect fl) (fl_skip1 fl)) r next      (* V *)
      else if N.eqb c 105 then cluster (mkfl (fl_version fl) true (fl_skip1 fl)) r next     (* i *)
      else if N.eqb c 120 then cluster (mkfl (fl_version fl) (fl_inspect fl) true) r next   (* x *)
      else if mem_ch c plain_short then cluster fl r next
      else CErr                                           (* unknown option, -J *)
  end.

(* after the option loop: a pending -V wins over running anything *)
Definition fin (fl : pyflags) (x : pyrun) : pyrun := if fl_version fl then RInfo else x.

(* program selection once option parsing has stopped at l = tokens[i:] *)
Definition program (fl : pyflags) (i : nat) (l : list str) : pyrun :=
  match l with
  | [] => RStdin fl
  | s :: _ => if str_eqb s dash then RStdin fl else RFile i fl
  end.

(* l = tokens[i:] *)
Fixpoint pyargs (fl : pyflags) (i : nat) (l : list str) : pyrun :=
  match l with
  | [] => fin fl (RStdin fl)
  | t :: r =>
      if negb (is_dash t) || str_eqb t dash then fin fl (program fl i (t :: r))
      else if str_eqb t $"--" then fin fl (program fl (S i) r)
      else if str_eqb t $"--help" then RInfo
      else if str_eqb t $"--version" then pyargs (mkfl true (fl_inspect fl) (fl_skip1 fl)) (S i) r
      else
        match cluster fl (tl t) (hd_error r) with
        | CErr => RUsageError
        | CInfo => RInfo
        | CEnd => fin fl (program fl (S i) r)
        | CCmd fl' (Some code) => fin fl' (RCommand i code fl')
        | CCmd fl' None => match r with a :: _ => fin fl' (RCommand (S i) a fl') | [] => RUsageError end
        | CMod fl' (Some m) => fin fl' (RModule i m fl')
        | CMod fl' None => match r with a :: _ => fin fl' (RModule (S i) a fl') | [] => RUsageError end
        | CNext fl' false => pyargs fl' (S i) r
        | CNext fl' true => match r with _ :: r' => pyargs fl' (S (S i)) r' | [] => RUsageError end
        end
  end.

Definition py_cmdline (tokens : list str) : pyrun := pyargs fl0 1 (tl tokens).

(* Soundness of an approval with respect to that grammar: nothing runs, or the standard calendar module (no REPL afterwards, no calendar.py in the cwd),
   or exactly the file whose analysis succeeded, from its first line, without a REPL afterwards. *)
Section Sound.
  Variable resolve : str -> option str.
  Variable analyze : str -> bool.
  Variable shadow : str -> bool.
  Definition sound (cwd : str) (tokens : list str) (r : pyrun) : Prop :=
    match r with
    | RUsageError | RInfo => True
    | RModule _ m fl => m = $"calendar" /\ fl_inspect fl = false /\ shadow cwd = false
    | RFile i fl =>
        fl_inspect fl = false /\ fl_skip1 fl = false /\
        exists tok p, nth_error tokens i = Some tok /\ resolve (pjoin cwd tok) = Some p /\ analyze p = true
    | RCommand _ _ _ | RStdin _ => False
    end.
End Sound.
