(* config._glob_to_regex / config._glob_match: the matcher used for patterns containing "**".

   _glob_to_regex emits a regular expression text; what Python's `re` does with it matters:
     - "**" -> ".*" without DOTALL: '.' does not match "\n";  "**/" -> ".*" "/?"
     - "*" -> "[^/]*", "?" -> "[^/]" (negated sets do match "\n")
     - "[...]" : the text between the brackets is passed through RAW (only a leading '!' becomes
       '^'), so a leading '^' negates too, a reversed range is a re.error (=> False), and a
       backslash starts an `re` escape (\d, \w, \] ...).  A class text that contains a backslash,
       or is exactly "^" (which makes `re` read past the glob's closing bracket), is outside the
       modelled fragment: the result is the explicit G2Unsupported.
     - the regex is "^" ... "$" used with re.match: "$" also matches before a final "\n".
   everything else is re.escape'd, i.e. a literal. *)
From DippyV Require Import Base.Str Model.Fnmatch.

Inductive elem :=
| EDotStar            (* .*      *)
| EOptSlash           (* /?      *)
| ENsStar             (* [^/]*   *)
| ENs                 (* [^/]    *)
| ELit (c : N)
| ESet (neg : bool) (items : list (N * N))
| EErr                (* re.error -> _glob_match returns False *)
| EUnsup.             (* outside the modelled fragment *)

Definition g2_class (cls : str) : elem :=
  if mem_ch c_bs cls then EUnsup
  else if str_eqb cls [c_caret] then EUnsup
  else
    let t := match cls with
             | x :: r => if N.eqb x c_bang then c_caret :: r else cls
             | [] => cls
             end in
    match sre_set t with
    | Some (n, it) => ESet n it
    | None => EErr
    end.

Fixpoint compile (fuel : nat) (p : str) : list elem :=
  match fuel with
  | O => []
  | S f =>
      match p with
      | [] => []
      | c :: r =>
          if N.eqb c c_star then
            match r with
            | d :: r' =>
                if N.eqb d c_star then
                  match r' with
                  | e :: r'' => if N.eqb e c_slash then EDotStar :: EOptSlash :: compile f r''
                                else EDotStar :: compile f r'
                  | [] => [EDotStar]
                  end
                else ENsStar :: compile f r
            | [] => [ENsStar]
            end
          else if N.eqb c c_q then ENs :: compile f r
          else if N.eqb c c_lb then
            match scan_close r with
            | None => ELit c_lb :: compile f r
            | Some (cls, after) => g2_class cls :: compile f after
            end
          else ELit c :: compile f r
      end
  end.

Definition elem1 (e : elem) (c : N) : bool :=
  match e with
  | ENs => negb (N.eqb c c_slash)
  | ELit d => N.eqb d c
  | ESet neg items => xorb neg (in_ranges c items)
  | _ => false
  end.

(* re.match("^" es "$", s) is not None *)
Fixpoint ematch (es : list elem) (s : str) {struct es} : bool :=
  match es with
  | [] => match s with [] => true | [c] => N.eqb c c_nl | _ => false end
  | EDotStar :: r =>
      (fix go (s : str) : bool :=
         ematch r s || match s with [] => false | c :: s' => negb (N.eqb c c_nl) && go s' end) s
  | ENsStar :: r =>
      (fix go (s : str) : bool :=
         ematch r s || match s with [] => false | c :: s' => negb (N.eqb c c_slash) && go s' end) s
  | EOptSlash :: r =>
      ematch r s || match s with [] => false | c :: s' => N.eqb c c_slash && ematch r s' end
  | e :: r =>
      match s with
      | [] => false
      | c :: s' => elem1 e c && ematch r s'
      end
  end.

Definition is_eerr (e : elem) : bool := match e with EErr => true | _ => false end.
Definition is_eunsup (e : elem) : bool := match e with EUnsup => true | _ => false end.

Inductive g2res := G2 (b : bool) | G2Unsupported.

Definition g2_elems (pat : str) : list elem := compile (length pat) pat.

(* the "**" branch of _glob_match *)
Definition glob2 (text pat : str) : g2res :=
  let es := g2_elems pat in
  if existsb is_eunsup es then G2Unsupported
  else if existsb is_eerr es then G2 false
  else G2 (ematch es text).

Definition star2 : str := [c_star; c_star].

(* config._glob_match(text, pattern) *)
Definition glob_match (text pat : str) : g2res :=
  if negb (infixb star2 pat) then G2 (fnmatch text pat)
  else if str_eqb pat star2 then G2 true
  else glob2 text pat.

Definition g2_true (r : g2res) : bool := match r with G2 b => b | G2Unsupported => false end.
Definition g2_supported (r : g2res) : bool := match r with G2 _ => true | G2Unsupported => false end.
