(* Model of dippy/dippy.py: mode detection, main() with its try/except structure, the three
   envelope builders, PostToolUse and MCP routing.  (C06, C12, C14 routing half, C19)

   JSON values carry exactly what main() can observe of them; every Python operation that can
   raise on a value of the wrong type returns [Raise].  Everything main() calls into -
   json.load, Path.resolve, Path.cwd, load_config, configure_logging, log_decision, analyze,
   fnmatch, tokenize, the per-rule matcher of match_after, print of a non-ASCII line - is a
   Section variable that may return or raise.

   Not modelled (see TRUSTED in harness/c06.py): the calls logging.info/warning/error of the
   legacy text log - stdlib logging swallows handler errors (Handler.handleError), so they never
   raise into main(); json.dumps with ensure_ascii (total on str/dict values, ASCII output);
   print of an ASCII line to a working stdout. *)
From Coq Require Import List Bool NArith String.
From DippyV Require Import Base.Str Base.Verdict Gen.Tables.
Import ListNotations.
Open Scope N_scope.

(* ------------------------------------------------------------------ exceptions *)
Inductive exn :=
| AttributeError | TypeError | ValueError | KeyError | RecursionError | MemoryError
| OSError | RuntimeError | UnicodeError
| JSONDecodeError                  (* json.JSONDecodeError (a ValueError) *)
| ConfigError (msg : str)          (* dippy.core.config.ConfigError, str(e) = msg *)
| OtherException (name : str)      (* any other subclass of Exception *)
| BaseOnly (name : str).           (* KeyboardInterrupt, SystemExit, GeneratorExit: NOT caught by `except Exception` *)

Definition is_exception (e : exn) : bool := match e with BaseOnly _ => false | _ => true end.
Definition is_oserror (e : exn) : bool := match e with OSError => true | _ => false end.

Inductive res (A : Type) := Ok (a : A) | Raise (e : exn).
Arguments Ok {A} a.
Arguments Raise {A} e.
Definition bind {A B} (x : res A) (f : A -> res B) : res B :=
  match x with Ok a => f a | Raise e => Raise e end.
Notation "x <- e ;; k" := (bind e (fun x => k)) (at level 61, e at next level, right associativity).

(* ------------------------------------------------------------------ JSON as Python sees it *)
Inductive json :=
| JNull
| JBool (b : bool)
| JNum (nonzero : bool)            (* int/float: only truthiness is observable by main() *)
| JStr (s : str)
| JArr (l : list json)
| JObj (kv : list (str * json)).   (* a dict; keys unique (json.load keeps the last duplicate) *)

Definition truthy (j : json) : bool :=
  match j with
  | JNull => false
  | JBool b => b
  | JNum nz => nz
  | JStr s => nonempty s
  | JArr l => nonempty l
  | JObj kv => nonempty kv
  end.

(* x == "literal" : never raises, true only for an equal str *)
Definition py_eq_str (j : json) (s : str) : bool :=
  match j with JStr t => str_eqb t s | _ => false end.

Fixpoint assoc (k : str) (kv : list (str * json)) : option json :=
  match kv with
  | [] => None
  | (k', v) :: r => if str_eqb k' k then Some v else assoc k r
  end.

(* "key" in x *)
Definition py_in (k : str) (j : json) : res bool :=
  match j with
  | JObj kv => Ok (match assoc k kv with Some _ => true | None => false end)
  | JArr l => Ok (existsb (fun x => py_eq_str x k) l)        (* list membership by == *)
  | JStr s => Ok (infixb k s)                                  (* substring test *)
  | JNull | JBool _ | JNum _ => Raise TypeError                (* argument of type ... is not iterable *)
  end.

(* x.get(key, default) *)
Definition py_get (j : json) (k : str) (dflt : json) : res json :=
  match j with
  | JObj kv => Ok (match assoc k kv with Some v => v | None => dflt end)
  | _ => Raise AttributeError
  end.

(* x in ("a", "b", ...)  - a tuple: compared with ==, never raises *)
Definition py_in_tuple (j : json) (l : list str) : bool := existsb (py_eq_str j) l.

(* x in frozenset({...}) - hashes x first *)
Definition py_in_frozenset (j : json) (l : list str) : res bool :=
  match j with
  | JArr _ | JObj _ => Raise TypeError                          (* unhashable type *)
  | _ => Ok (py_in_tuple j l)
  end.

(* x.startswith(p) *)
Definition py_startswith (j : json) (p : str) : res bool :=
  match j with JStr s => Ok (prefixb p s) | _ => Raise AttributeError end.

(* ------------------------------------------------------------------ modes *)
Inductive mode := Claude | Gemini | Cursor.
Definition mode_eqb (a b : mode) : bool :=
  match a, b with Claude, Claude | Gemini, Gemini | Cursor, Cursor => true | _, _ => false end.
Definition is_cursor (m : mode) : bool := match m with Cursor => true | _ => false end.

(* str.lower() restricted to what matters for membership in ENV_TRUTHY: no non-ASCII character
   lowers to a character of "1", "true", "yes" (checked by the harness over all of Unicode) *)
Definition lower_ch (c : N) : N := if (65 <=? c) && (c <=? 90) then c + 32 else c.
Definition lower (s : str) : str := map lower_ch s.

Definition env_flag (v : option str) : bool :=
  match v with None => false | Some s => mem_str (lower s) ENV_TRUTHY end.

Record environ := { argv : list str; e_claude : option str; e_gemini : option str; e_cursor : option str }.

Definition detect_mode_from_flags (e : environ) : option mode :=
  if mem_str $"--claude" (argv e) || env_flag (e_claude e) then Some Claude
  else if mem_str $"--gemini" (argv e) || env_flag (e_gemini e) then Some Gemini
  else if mem_str $"--cursor" (argv e) || env_flag (e_cursor e) then Some Cursor
  else None.

Definition detect_mode_from_input (inp : json) : res mode :=
  c <- py_in $"command" inp ;;
  is_cursor <- (if c then t <- py_in $"tool_name" inp ;; Ok (negb t) else Ok false) ;;
  if is_cursor then Ok Cursor else
  tool_name <- py_get inp $"tool_name" (JStr []) ;;
  if py_in_tuple tool_name GEMINI_TOOL_NAMES then Ok Gemini else
  (* the warning branch: only its .startswith can raise *)
  _ <- (if truthy tool_name && negb (py_eq_str tool_name $"Bash")
        then py_startswith tool_name $"mcp__" else Ok false) ;;
  Ok Claude.

(* ------------------------------------------------------------------ envelopes *)
Definition duck : str := [128036; 32].      (* U+1F424 and a space *)

Definition claude_env (d : str) (reason : str) : json :=
  JObj [($"hookSpecificOutput",
         JObj [($"hookEventName", JStr $"PreToolUse");
               ($"permissionDecision", JStr d);
               ($"permissionDecisionReason", JStr (duck ++ reason))])].
Definition gemini_env (d : str) (reason : str) : json :=
  JObj [($"decision", JStr d); ($"reason", JStr (duck ++ reason))].
Definition cursor_env (d : str) (reason : str) : json :=
  let msg := JStr (duck ++ reason) in
  JObj [($"permission", JStr d); ($"user_message", msg); ($"agent_message", msg);
        ($"userMessage", msg); ($"agentMessage", msg)].

(* the three response helpers, written out three times as in the source *)
Definition approve (m : mode) (reason : str) : json :=
  match m with
  | Gemini => gemini_env $"allow" reason
  | Cursor => cursor_env $"allow" reason
  | Claude => claude_env $"allow" reason
  end.
Definition ask (m : mode) (reason : str) : json :=
  match m with
  | Gemini => gemini_env $"ask" reason
  | Cursor => cursor_env $"ask" reason
  | Claude => claude_env $"ask" reason
  end.
Definition deny (m : mode) (reason : str) : json :=
  match m with
  | Gemini => gemini_env $"deny" reason
  | Cursor => cursor_env $"deny" reason
  | Claude => claude_env $"deny" reason
  end.

(* ------------------------------------------------------------------ configuration, as far as main() sees it *)
Record rule := { r_decision : str; r_pattern : str; r_message : option str; r_exact : bool }.

(* S = what the shell analysis reads (rules, redirect_rules, aliases, default);
   G = what configure_logging reads (log, log_full) *)
Record config (S G : Type) := {
  c_shell : S;
  c_mcp : list rule;
  c_after : list rule;
  c_after_mcp : list rule;
  c_log : G
}.
Arguments c_shell {S G} c.
Arguments c_mcp {S G} c.
Arguments c_after {S G} c.
Arguments c_after_mcp {S G} c.
Arguments c_log {S G} c.

(* ------------------------------------------------------------------ process output *)
Inductive item := J (j : json) | Text (s : str).
Record output := { stdout : list item; exit_code : nat; traceback : bool }.

Definition crash : output := {| stdout := []; exit_code := 1; traceback := true |}.
Definition done (l : list item) : output := {| stdout := l; exit_code := 0; traceback := false |}.

(* where the command is: the shape of the input decides; a forced Cursor mode only when the input has
   neither key.   "tool_name" not in input_data and (MODE == "cursor" or "command" in input_data) *)
Definition cursor_way (mode_is_cursor : bool) (inp : json) : res bool :=
  has_tool_name <- py_in $"tool_name" inp ;;
  if negb has_tool_name then (if mode_is_cursor then Ok true else py_in $"command" inp) else Ok false.

Definition msg_or_empty (r : rule) : str := match r_message r with Some m => m | None => [] end.

Section Main.
  Variables S G : Type.
  Notation config := (config S G).

  (* ---- the outside world *)
  Variable o_resolve : str -> res str.                    (* str(Path(s).resolve()) *)
  Variable o_getcwd : res str.                            (* Path.cwd() *)
  Variable o_load_config : str -> res config.
  Variable o_configure_logging : G -> res unit.
  Variable o_log_decision : str -> str -> res unit.       (* decision, cmd *)
  Variable o_analyze : str -> S -> str -> res (str * str).  (* command, config, cwd -> action, reason *)
  Variable o_gmatch : str -> str -> bool.                 (* fnmatch.fnmatch(tool_name, pattern) *)
  Variable o_words : str -> list str.                     (* parser.tokenize on a str (total: try/except inside) *)
  Variable o_after_prep : S -> str -> list str -> res unit.         (* alias + normalisation before the loop *)
  Variable o_after_rule : S -> str -> list str -> rule -> res bool. (* does this after rule match *)
  Variable o_print : str -> res unit.                     (* print() of a non-ASCII line *)

  (* Path(x).resolve() *)
  Definition path_resolve (j : json) : res str :=
    match j with JStr s => o_resolve s | _ => Raise TypeError end.

  (* analyze(): its first statement is command.strip() *)
  Definition analyze (command : json) (sh : S) (cwd : str) : res (str * str) :=
    match command with JStr s => o_analyze s sh cwd | _ => Raise AttributeError end.

  (* parser.tokenize: `if not command or not command.strip()` *)
  Definition tokenize (command : json) : res (list str) :=
    if negb (truthy command) then Ok [] else
    match command with JStr s => Ok (o_words s) | _ => Raise AttributeError end.

  (* ---- rule loops (last match wins) *)
  Fixpoint match_mcp_loop (tn : str) (rules : list rule) (result : option rule) : option rule :=
    match rules with
    | [] => result
    | r :: rs => match_mcp_loop tn rs (if o_gmatch tn (r_pattern r) then Some r else result)
    end.
  Definition match_mcp (tn : str) (cfg : config) : option rule := match_mcp_loop tn (c_mcp cfg) None.

  Fixpoint after_mcp_loop (tn : str) (rules : list rule) (result : option str) : option str :=
    match rules with
    | [] => result
    | r :: rs => after_mcp_loop tn rs (if o_gmatch tn (r_pattern r) then Some (msg_or_empty r) else result)
    end.
  Definition match_after_mcp (tn : str) (cfg : config) : option str := after_mcp_loop tn (c_after_mcp cfg) None.

  Fixpoint after_loop (sh : S) (cwd : str) (ws : list str) (rules : list rule) (result : option str)
    : res (option str) :=
    match rules with
    | [] => Ok result
    | r :: rs =>
        b <- o_after_rule sh cwd ws r ;;
        after_loop sh cwd ws rs (if b then Some (msg_or_empty r) else result)
    end.
  Definition match_after (ws : list str) (cfg : config) (cwd : str) : res (option str) :=
    _ <- o_after_prep (c_shell cfg) cwd ws ;;
    after_loop (c_shell cfg) cwd ws (c_after cfg) None.

  (* `if message: print(f"duck {message}")` *)
  Definition print_message (message : option str) : res (list item) :=
    match message with
    | Some (c :: t) => _ <- o_print (duck ++ c :: t) ;; Ok [Text (duck ++ c :: t)]
    | _ => Ok []
    end.

  (* ---- check_command / handle_post_tool_use / check_mcp_tool / handle_mcp_post_tool_use *)
  Definition check_command (m : mode) (command : json) (cfg : config) (cwd : str) : res json :=
    result <- analyze command (c_shell cfg) cwd ;;
    let (action, reason) := result in
    _ <- o_log_decision action reason ;;
    if str_eqb action $"allow" then Ok (approve m reason)
    else if str_eqb action $"deny" then Ok (deny m reason)
    else Ok (ask m reason).

  Definition handle_post_tool_use (command : json) (cfg : config) (cwd : str) : res (list item) :=
    ws <- tokenize command ;;
    message <- match_after ws cfg cwd ;;
    print_message message.

  Definition mcp_reason (r : rule) : str :=
    match r_message r with
    | Some (c :: t) => c :: t
    | _ => $"[" ++ r_pattern r ++ $"]"
    end.

  Definition check_mcp_tool (m : mode) (tn : str) (cfg : config) : res json :=
    match match_mcp tn cfg with
    | None => Ok (JObj [])
    | Some r =>
        let reason := mcp_reason r in
        _ <- o_log_decision (r_decision r) reason ;;
        if str_eqb (r_decision r) $"allow" then Ok (approve m reason)
        else if str_eqb (r_decision r) $"deny" then Ok (deny m reason)
        else Ok (ask m reason)
    end.

  Definition handle_mcp_post_tool_use (tn : str) (cfg : config) : res (list item) :=
    print_message (match_after_mcp tn cfg).

  (* the str behind a value known to be one of the bypass literals *)
  Definition str_of (j : json) : str := match j with JStr s => s | _ => [] end.

  (* ---- main(), statement by statement; MODE is the variable m *)
  Definition shell_tail (m : mode) (inp : json) (hook_event command : json) (cfg : config) (cwd : str)
    : res (list item) :=
    let post := py_eq_str hook_event $"PostToolUse" in
    bypassed <-
      (if negb post then
         permission_mode <- py_get inp $"permission_mode" (JStr $"default") ;;
         if py_in_tuple permission_mode BYPASS_MODES then
           _ <- o_log_decision $"allow" (str_of permission_mode) ;;
           Ok (Some [J (approve m (str_of permission_mode))])
         else Ok None
       else Ok None) ;;
    match bypassed with
    | Some out => Ok out
    | None =>
        if post then handle_post_tool_use command cfg cwd
        else result <- check_command m command cfg cwd ;; Ok [J result]
    end.

  Definition mcp_part (m : mode) (inp : json) (hook_event : json) (tn : str) (cfg : config)
    : res (list item) :=
    let post := py_eq_str hook_event $"PostToolUse" in
    bypassed <-
      (if negb post then
         permission_mode <- py_get inp $"permission_mode" (JStr $"default") ;;
         if py_in_tuple permission_mode BYPASS_MODES then
           _ <- o_log_decision $"allow" (str_of permission_mode) ;;
           Ok (Some [J (approve m (str_of permission_mode))])
         else Ok None
       else Ok None) ;;
    match bypassed with
    | Some out => Ok out
    | None =>
        if post then handle_mcp_post_tool_use tn cfg
        else result <- check_mcp_tool m tn cfg ;; Ok [J result]
    end.

  Definition after_config (m : mode) (inp : json) (cfg : config) (cwd : str) : res (list item) :=
    hook_event <- py_get inp $"hook_event_name" (JStr $"PreToolUse") ;;
    (* `"tool_name" not in input_data and (MODE == "cursor" or "command" in input_data)` *)
    cursor_way <- cursor_way (is_cursor m) inp ;;
    if cursor_way then
        command <- py_get inp $"command" (JStr []) ;;
        shell_tail m inp hook_event command cfg cwd
    else
        tool_name <- py_get inp $"tool_name" (JStr []) ;;
        tool_input <- py_get inp $"tool_input" (JObj []) ;;
        is_mcp <- py_startswith tool_name $"mcp__" ;;
        if is_mcp then mcp_part m inp hook_event (str_of tool_name) cfg
        else
          in_shell <- py_in_frozenset tool_name SHELL_TOOL_NAMES ;;
          if negb in_shell then Ok [J (JObj [])]
          else
            command <- py_get tool_input $"command" (JStr []) ;;
            shell_tail m inp hook_event command cfg cwd.

  Definition find_cwd (inp : json) : res str :=
    cwd_str <- py_get inp $"cwd" JNull ;;
    cwd_str <- (if negb (truthy cwd_str)
                then tool_input <- py_get inp $"tool_input" (JObj []) ;; py_get tool_input $"cwd" JNull
                else Ok cwd_str) ;;
    if truthy cwd_str then path_resolve cwd_str else o_getcwd.

  Definition load_stage (cwd : str) : res config :=
    cfg <- o_load_config cwd ;;
    _ <- o_configure_logging (c_log cfg) ;;
    Ok cfg.

  (* the body of the outer try, after json.load *)
  Definition main_try (explicit : option mode) (inp : json) : res (list item) :=
    m <- (match explicit with Some m => Ok m | None => detect_mode_from_input inp end) ;;
    cwd <- find_cwd inp ;;
    match load_stage cwd with
    | Raise (ConfigError msg) =>
        (* PostToolUse is advisory only: never answered with a permission decision *)
        hook_event <- py_get inp $"hook_event_name" JNull ;;
        if py_eq_str hook_event $"PostToolUse" then Ok [] else Ok [J (ask m ($"config error: " ++ msg))]
    | Raise e => Raise e
    | Ok cfg => after_config m inp cfg cwd
    end.

  (* the two except clauses of main(): both print {} ; BaseException-only classes escape *)
  Definition handlers (r : res (list item)) : output :=
    match r with
    | Ok l => done l
    | Raise e => if is_exception e then done [J (JObj [])] else crash
    end.

  (* the process: setup_logging() (outside the try, catches OSError), json.load, the body *)
  Definition main (setup : res unit) (e : environ) (stdin : res json) : output :=
    match setup with
    | Raise x => if is_oserror x then handlers (inp <- stdin ;; main_try (detect_mode_from_flags e) inp) else crash
    | Ok _ => handlers (inp <- stdin ;; main_try (detect_mode_from_flags e) inp)
    end.

  (* the mode main() ends up answering in (when it gets that far) *)
  Definition mode_of (e : environ) (inp : json) : res mode :=
    match detect_mode_from_flags e with Some m => Ok m | None => detect_mode_from_input inp end.
End Main.
Arguments analyze {S}.
Arguments match_mcp {S G}.
Arguments match_after_mcp {S G}.
Arguments after_loop {S}.
Arguments match_after {S G}.
Arguments check_command {S G}.
Arguments handle_post_tool_use {S G}.
Arguments check_mcp_tool {S G}.
Arguments handle_mcp_post_tool_use {S G}.
Arguments shell_tail {S G}.
Arguments mcp_part {S G}.
Arguments after_config {S G}.
Arguments load_stage {S G}.
Arguments main_try {S G}.
Arguments main {S G}.

(* ------------------------------------------------------------------ host-side readers (C12) *)
Definition verdict_str (v : verdict) : str :=
  match v with Allow => $"allow" | Ask => $"ask" | Deny => $"deny" end.
Definition verdict_of_str (s : str) : option verdict :=
  if str_eqb s $"allow" then Some Allow
  else if str_eqb s $"ask" then Some Ask
  else if str_eqb s $"deny" then Some Deny
  else None.

Definition envelope (m : mode) (v : verdict) (reason : str) : json :=
  match m with
  | Claude => claude_env (verdict_str v) reason
  | Gemini => gemini_env (verdict_str v) reason
  | Cursor => cursor_env (verdict_str v) reason
  end.

Definition unduck (s : str) : str :=
  match s with
  | a :: b :: r => if (a =? 128036) && (b =? 32) then r else s
  | _ => s
  end.

(* what each host reads out of the answer (docs/hook-systems/*.md): the decision field and the reason
   field it shows, looked up by name (a JSON reader does not depend on the order of the keys) *)
Definition read_pair (d r : option json) : option (verdict * str) :=
  match d, r with
  | Some (JStr d), Some (JStr r) =>
      match verdict_of_str d with Some v => Some (v, unduck r) | None => None end
  | _, _ => None
  end.

Definition decode (m : mode) (j : json) : option (verdict * str) :=
  match j with
  | JObj kv =>
      match m with
      | Claude =>
          match assoc $"hookSpecificOutput" kv with
          | Some (JObj hv) => read_pair (assoc $"permissionDecision" hv) (assoc $"permissionDecisionReason" hv)
          | _ => None
          end
      | Gemini => read_pair (assoc $"decision" kv) (assoc $"reason" kv)
      | Cursor => read_pair (assoc $"permission" kv) (assoc $"user_message" kv)
      end
  | _ => None
  end.

(* schema conformance: exact key set (as a set: order is irrelevant to a JSON reader), value
   types and vocabulary *)
Definition keys (kv : list (str * json)) : list str := map fst kv.
Definition same_keys (ks : list str) (kv : list (str * json)) : bool :=
  forallb (fun k => mem_str k (keys kv)) ks && forallb (fun k => mem_str k ks) (keys kv)
  && Nat.eqb (length ks) (length kv).
Definition is_vocab (j : json) : bool :=
  match j with JStr d => match verdict_of_str d with Some _ => true | None => false end | _ => false end.
Definition is_jstr (j : json) : bool := match j with JStr _ => true | _ => false end.
Definition field_ok (kv : list (str * json)) (k : str) (p : json -> bool) : bool :=
  match assoc k kv with Some v => p v | None => false end.

Definition conforms (m : mode) (j : json) : bool :=
  match j with
  | JObj [] => true                                           (* {} : no opinion, valid for every host *)
  | JObj kv =>
      match m with
      | Claude =>
          same_keys [$"hookSpecificOutput"] kv &&
          field_ok kv $"hookSpecificOutput" (fun h =>
            match h with
            | JObj hv =>
                same_keys [$"hookEventName"; $"permissionDecision"; $"permissionDecisionReason"] hv
                && field_ok hv $"hookEventName" (fun x => py_eq_str x $"PreToolUse")
                && field_ok hv $"permissionDecision" is_vocab
                && field_ok hv $"permissionDecisionReason" is_jstr
            | _ => false
            end)
      | Gemini =>
          same_keys [$"decision"; $"reason"] kv
          && field_ok kv $"decision" is_vocab && field_ok kv $"reason" is_jstr
      | Cursor =>
          same_keys [$"permission"; $"user_message"; $"agent_message"; $"userMessage"; $"agentMessage"] kv
          && field_ok kv $"permission" is_vocab
          && field_ok kv $"user_message" is_jstr && field_ok kv $"agent_message" is_jstr
          && field_ok kv $"userMessage" is_jstr && field_ok kv $"agentMessage" is_jstr
      end
  | _ => false
  end.

(* ------------------------------------------------------------------ mode-free core (C12_factor) *)
Inductive outcome :=
| ODecision (v : verdict) (reason : str)
| OEmpty                      (* {} *)
| OText (s : str)             (* a PostToolUse feedback line *)
| OSilent.                    (* nothing printed *)

Definition render (m : mode) (o : outcome) : list item :=
  match o with
  | ODecision v r => [J (envelope m v r)]
  | OEmpty => [J (JObj [])]
  | OText s => [Text s]
  | OSilent => []
  end.

Definition verdict_of_action (a : str) : verdict :=
  if str_eqb a $"allow" then Allow else if str_eqb a $"deny" then Deny else Ask.

Section Core.
  Variables S G : Type.
  Notation config := (config S G).
  Variable o_resolve : str -> res str.
  Variable o_getcwd : res str.
  Variable o_load_config : str -> res config.
  Variable o_configure_logging : G -> res unit.
  Variable o_log_decision : str -> str -> res unit.
  Variable o_analyze : str -> S -> str -> res (str * str).
  Variable o_gmatch : str -> str -> bool.
  Variable o_words : str -> list str.
  Variable o_after_prep : S -> str -> list str -> res unit.
  Variable o_after_rule : S -> str -> list str -> rule -> res bool.
  Variable o_print : str -> res unit.

  Definition text_outcome (message : option str) : res outcome :=
    match message with
    | Some (c :: t) => _ <- o_print (duck ++ c :: t) ;; Ok (OText (duck ++ c :: t))
    | _ => Ok OSilent
    end.

  Definition perm_bypass (inp : json) (post : bool) : res (option outcome) :=
    if negb post then
      permission_mode <- py_get inp $"permission_mode" (JStr $"default") ;;
      if py_in_tuple permission_mode BYPASS_MODES then
        _ <- o_log_decision $"allow" (str_of permission_mode) ;;
        Ok (Some (ODecision Allow (str_of permission_mode)))
      else Ok None
    else Ok None.

  (* the verdict for a shell command: no mode anywhere *)
  Definition core_shell (inp : json) (hook_event command : json) (cfg : config) (cwd : str) : res outcome :=
    let post := py_eq_str hook_event $"PostToolUse" in
    b <- perm_bypass inp post ;;
    match b with
    | Some o => Ok o
    | None =>
        if post then
          ws <- tokenize o_words command ;;
          message <- match_after o_after_prep o_after_rule ws cfg cwd ;;
          text_outcome message
        else
          result <- analyze o_analyze command (c_shell cfg) cwd ;;
          let (action, reason) := result in
          _ <- o_log_decision action reason ;;
          Ok (ODecision (verdict_of_action action) reason)
    end.

  Definition core_mcp (inp : json) (hook_event : json) (tn : str) (cfg : config) : res outcome :=
    let post := py_eq_str hook_event $"PostToolUse" in
    b <- perm_bypass inp post ;;
    match b with
    | Some o => Ok o
    | None =>
        if post then text_outcome (match_after_mcp o_gmatch tn cfg)
        else
          match match_mcp o_gmatch tn cfg with
          | None => Ok OEmpty
          | Some r =>
              _ <- o_log_decision (r_decision r) (mcp_reason r) ;;
              Ok (ODecision (verdict_of_action (r_decision r)) (mcp_reason r))
          end
    end.

  (* [cursor] = "the mode is Cursor": consulted only when the input has neither tool_name nor command *)
  Definition core_after_config (cursor : bool) (inp : json) (cfg : config) (cwd : str) : res outcome :=
    hook_event <- py_get inp $"hook_event_name" (JStr $"PreToolUse") ;;
    cw <- cursor_way cursor inp ;;
    if cw then
      command <- py_get inp $"command" (JStr []) ;;
      core_shell inp hook_event command cfg cwd
    else
      tool_name <- py_get inp $"tool_name" (JStr []) ;;
      tool_input <- py_get inp $"tool_input" (JObj []) ;;
      is_mcp <- py_startswith tool_name $"mcp__" ;;
      if is_mcp then core_mcp inp hook_event (str_of tool_name) cfg
      else
        in_shell <- py_in_frozenset tool_name SHELL_TOOL_NAMES ;;
        if negb in_shell then Ok OEmpty
        else
          command <- py_get tool_input $"command" (JStr []) ;;
          core_shell inp hook_event command cfg cwd.

  Definition core (cursor : bool) (inp : json) : res outcome :=
    cwd <- find_cwd o_resolve o_getcwd inp ;;
    match load_stage o_load_config o_configure_logging cwd with
    | Raise (ConfigError msg) =>
        hook_event <- py_get inp $"hook_event_name" JNull ;;
        if py_eq_str hook_event $"PostToolUse" then Ok OSilent else Ok (ODecision Ask ($"config error: " ++ msg))
    | Raise e => Raise e
    | Ok cfg => core_after_config cursor inp cfg cwd
    end.
End Core.

Arguments core_shell {S G}.
Arguments core_mcp {S G}.
Arguments core_after_config {S G}.
Arguments core {S G}.

(* ------------------------------------------------------------------ the three input shapes (C12_same) *)
(* fields every host may add: hook_event_name, permission_mode, ... (never the routing keys) *)
Definition routing_keys : list str := [$"command"; $"tool_name"; $"tool_input"; $"cwd"].
Definition extra_ok (extra : list (str * json)) : bool :=
  forallb (fun kv => negb (mem_str (fst kv) routing_keys)) extra.

Definition cursor_input (command cwd : json) (extra : list (str * json)) : json :=
  JObj (($"command", command) :: ($"cwd", cwd) :: extra).
Definition tool_input_shape (tool_name : str) (command cwd : json) (extra : list (str * json)) : json :=
  JObj (($"tool_name", JStr tool_name) :: ($"tool_input", JObj [($"command", command)]) :: ($"cwd", cwd) :: extra).
