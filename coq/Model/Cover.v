(* Specification of which children every AST node must have analysed, and in which role
   (executable, so that the harness can measure on real ASTs that nothing lies outside it). *)
From DippyV Require Import Base.Str Base.Verdict Base.Sx Base.Tree Gen.Tables Model.RawScan Model.Walker.

(* the parts of a list that are analysed in sequence (operators removed) *)
Definition seq_parts (t : tree) : list tree :=
  filter (fun p => negb (is_kind "operator" p)) (children "parts" t).

Inductive role := RNode | RExp | RWord (scan : bool) | RCond | RRedir | RPat.

Definition firstc (l : string) (t : tree) : list tree :=
  match children l t with x :: _ => [x] | [] => [] end.
Definition tag (r : role) (l : list tree) : list (role * tree) := map (fun t => (r, t)) l.

(* the children a node of a given kind consumes when it is itself consumed in role r *)
Definition sub (r : role) (t : tree) : list (role * tree) :=
  let K (n : string) := is_kind n t in
  let redirs := tag RRedir (children "redirects" t) in
  match r with
  | RNode =>
      if K "command" then tag (RWord false) (children "words" t) ++ redirs
      else if K "pipeline" then tag RNode (children "commands" t)
      else if K "list" then tag RNode (seq_parts t)
      else if K "if" then tag RNode (firstc "condition" t ++ firstc "then_body" t ++ firstc "else_body" t) ++ redirs
      else if K "while" || K "until" then tag RNode (firstc "condition" t ++ firstc "body" t) ++ redirs
      else if K "for" || K "select" then tag RNode (firstc "body" t) ++ tag (RWord true) (children "words" t) ++ redirs
      else if K "for-arith" then tag RNode (firstc "body" t) ++ redirs
      else if K "case" then tag (RWord false) (children "word" t) ++ tag RPat (children "patterns" t) ++ redirs
      else if K "function" then tag RNode (firstc "body" t)
      else if K "subshell" || K "brace-group" then tag RNode (firstc "body" t) ++ redirs
      else if K "time" || K "negation" then tag RNode (firstc "pipeline" t)
      else if K "coproc" then tag RNode (firstc "command" t)
      else if K "cond-expr" then tag RCond (children "body" t) ++ redirs
      else if K "arith-cmd" then tag RExp (children "expression" t) ++ redirs
      else []
  | RExp =>
      if mem_str (kind_of t) SUBST_KINDS then tag RNode (firstc "command" t)
      else if K "word" then tag RExp (children "parts" t)
      else tag RExp (map snd (kids_of t))
  | RWord _ => tag RExp (children "parts" t)
  | RCond =>
      if K "unary-test" then tag (RWord true) (children "operand" t)
      else if K "binary-test" then tag (RWord true) (children "left" t ++ children "right" t)
      else if K "cond-and" || K "cond-or" then tag RCond (children "left" t ++ children "right" t)
      else if K "cond-not" then tag RCond (children "operand" t)
      else if K "cond-paren" then tag RCond (children "inner" t)
      else []
  | RRedir => if K "heredoc" then [] else tag (RWord (str_eqb (attr_d "op" t) HERESTRING_OP)) (firstc "target" t)
  | RPat => tag RNode (firstc "body" t)
  end.

(* everything reached from a node, with the role it is reached in *)
Fixpoint reach_fuel (n : nat) (r : role) (t : tree) : list (role * tree) :=
  (r, t) :: match n with
            | O => []
            | S m => flat_map (fun p => reach_fuel m (fst p) (snd p)) (sub r t)
            end.

(* the words of a simple command whose quoted text bash may evaluate later: assignment values and the variable-name
   arguments of test / [ / read / printf -v (words without expansions only: the others are walked part by part) *)
Fixpoint name_raws (base : str) (words : list str) (nassign pos : nat) (l : list tree) : list str :=
  match l with
  | [] => []
  | t :: rest =>
      (if negb (nonempty (children "parts" t)) && (Nat.ltb pos nassign || names_variable base words pos nassign)
       then [attr_d "value" t] else []) ++ name_raws base words nassign (S pos) rest
  end.
Definition command_raws (t : tree) : list str :=
  let ws := map word_value (children "words" t) in
  let tokens := skip_assignments ws in
  name_raws (match tokens with b :: _ => b | [] => [] end) ws (length ws - length tokens) 0 (children "words" t).

(* the raw strings bash expands that a node consumed in role r must have scanned *)
Definition raw_positions (r : role) (t : tree) : list str :=
  match r with
  | RNode => if is_kind "for-arith" t then [attr_d "init" t; attr_d "cond" t; attr_d "incr" t]
             else if is_kind "command" t then command_raws t else []
  | RExp => if mem_str (kind_of t) SUBST_KINDS then [] else if is_kind "word" t then [] else map snd (strs_of t)
  | RWord true => if nonempty (children "parts" t) then [] else [attr_d "value" t]
  | RWord false => []
  | RCond => []
  | RRedir => if is_kind "heredoc" t then match flag "quoted" t with Some false => [attr_d "content" t] | _ => [] end else []
  | RPat => [attr_d "pattern" t]
  end.


Fixpoint height (t : tree) : nat :=
  match t with T _ _ _ ks => S (fold_right Nat.max O (map (fun p => height (snd p)) ks)) end.

Definition exec_kinds : list str := [$"command"; $"cmdsub"; $"procsub"].
Definition count_exec (l : list tree) : nat := length (filter (fun d => mem_str (kind_of d) exec_kinds) l).

(* (executable nodes anywhere in the tree, executable nodes reached by the role-directed descent) *)
Definition coverage (t : tree) : nat * nat :=
  (count_exec (desc t), count_exec (map snd (reach_fuel (height t) RNode t))).
